#!/bin/sh
# Idempotent, offline: overlay venv on top of /venv with crosshair-tool (+z3-solver).
set -e
V=/verif/.venv
if [ -x "$V/bin/crosshair" ] && "$V/bin/python" -c 'import crosshair, z3, streamflow' 2>/dev/null; then
  exit 0
fi
rm -rf "$V"
/venv/bin/python -m venv "$V"
SP=$("$V/bin/python" -c 'import sysconfig; print(sysconfig.get_paths()["purelib"])')
printf '%s\n' "import site; site.addsitedir('/venv/lib/python3.12/site-packages')" "/repo" > "$SP/verif_overlay.pth"
PIP_NO_INDEX=1 "$V/bin/pip" install -q --no-index --find-links /opt/veriftools/wheels crosshair-tool >/dev/null
"$V/bin/python" -c 'import crosshair, z3, streamflow'
