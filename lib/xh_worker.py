"""CrossHair worker: analyse ONE harness function of ONE file, print one JSON line.

Usage: python -m lib.xh_worker FILE FUNC --cond T --path P

This is `crosshair check --report_all` through the Python API, so that the
number of explored paths (CrossHair's own `num_paths` statistic) and the solver
verdict are available as data rather than as text to be scraped.

Output (last line of stdout, prefixed with XHRESULT):
  {"func":..., "status": "confirmed"|"refuted"|"unknown"|"pre_unsat"|"error",
   "messages":[{"state":..., "message":..., "line":...}], "paths": n,
   "confirmed_paths": n, "cpu_s": s}
"""

from __future__ import annotations

import argparse
import collections
import json
import os
import sys
import time


def main() -> int:
    ap = argparse.ArgumentParser()
    ap.add_argument("file")
    ap.add_argument("func")
    ap.add_argument("--cond", type=float, default=60.0)
    ap.add_argument("--path", type=float, default=20.0)
    ap.add_argument("--verbose", action="store_true")
    a = ap.parse_args()

    sys.setrecursionlimit(10000)
    import crosshair.core_and_libs  # noqa: F401  (registers library contracts)
    import crosshair.core as core
    from crosshair.core import analyze_function
    from crosshair.fnutil import FunctionInfo
    from crosshair.options import AnalysisOptionSet
    from crosshair.pure_importer import prefer_pure_python_imports
    from crosshair.statespace import MessageType
    from crosshair.util import add_to_pypath, load_file, set_debug

    # CrossHair's weakref model runs gc.collect() on EVERY weakref dereference
    # (to make weakref liveness deterministic). asyncio registers each task in a
    # WeakSet whose removal callback dereferences a weakref, i.e. one full
    # collection (~25 ms) per finished task: >50% of the run time. Nothing under
    # test observes weakref liveness, so the collection is skipped.
    import crosshair.libimpl.weakreflib as _wr

    _wr.collect = lambda: None
    set_debug(a.verbose)
    t0 = time.process_time()
    stats: collections.Counter = collections.Counter()
    confirmed_paths = [0]
    _orig = core.analyze_calltree

    def _wrapped(options, conditions):
        options.stats = stats
        r = _orig(options, conditions)
        confirmed_paths[0] += r.num_confirmed_paths
        return r

    core.analyze_calltree = _wrapped
    res = {"func": a.func, "file": a.file}
    with add_to_pypath(""), prefer_pure_python_imports():
        try:
            module = load_file(a.file)
        except BaseException as e:  # import error of the harness
            import traceback

            res.update(
                status="error",
                messages=[{"state": "IMPORT_ERR", "message": traceback.format_exc()}],
                paths=0,
            )
            print("XHRESULT " + json.dumps(res))
            return 0
        fn = getattr(module, a.func)
        options = AnalysisOptionSet(
            per_condition_timeout=a.cond,
            per_path_timeout=a.path,
            report_all=True,
            max_uninteresting_iterations=sys.maxsize,
        )
        checkables = analyze_function(FunctionInfo.from_fn(fn), options)
        msgs = core.run_checkables(checkables)
    out = []
    status = "unknown"
    worst = None
    for m in msgs:
        out.append(
            {
                "state": m.state.name,
                "message": m.message,
                "line": m.line,
                "traceback": (m.traceback or "")[-3000:],
            }
        )
        if worst is None or m.state > worst:
            worst = m.state
    if worst is None:
        status = "error"
        out.append({"state": "NO_CONDITIONS", "message": "no checkable conditions"})
    elif worst == MessageType.CONFIRMED:
        status = "confirmed"
    elif worst == MessageType.CANNOT_CONFIRM:
        status = "unknown"
    elif worst == MessageType.PRE_UNSAT:
        status = "pre_unsat"
    elif worst in (MessageType.POST_FAIL, MessageType.EXEC_ERR, MessageType.POST_ERR):
        status = "refuted"
    else:
        status = "error"
    res.update(
        status=status,
        messages=out,
        paths=stats.get("num_paths", 0),
        confirmed_paths=confirmed_paths[0],
        cpu_s=round(time.process_time() - t0, 3),
    )
    print("XHRESULT " + json.dumps(res))
    sys.stdout.flush()
    os._exit(0)  # skip interpreter teardown (pending coroutine frames etc.)


if __name__ == "__main__":
    sys.exit(main())
