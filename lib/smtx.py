"""smtx — a small AST -> SMT translator for kernels of /repo, plus a two-solver back end.

What it is
----------
`Interp` executes the *source text* of real /repo functions (read at run time with
inspect + ast from whatever module is imported, so a scratch worktree on PYTHONPATH is
honoured) over values that are either concrete Python data (the STRUCTURE: strings, dicts,
sets, None) or z3 terms (the QUANTITIES: Int / Real / Bool). Whenever control flow depends
on a term, the run forks (`explore` re-executes the kernel once per decision vector, DFS),
so a kernel becomes a finite set of paths (path condition, outcome). Outcomes are
"return value" or "raise <exception class>".

A verification condition is `pre AND OR_i(pc_i AND NOT prop_i)`; it is written to an
.smt2 file and must be answered `unsat` by BOTH z3 (python module, in a subprocess) and
cvc5 (binary). Any `(error`, `unknown`, time-out or disagreement is inconclusive.

Decisions that follow from the precondition "these variables are >= 0" by sign reasoning on
linear terms (e.g. `size < 0` for a sum of non-negative sizes) are not forked; every such
pruning is recorded as a lemma and discharged by both solvers together with the VC, and the
set of path conditions is proved exhaustive under the precondition.

Supported Python subset (anything else -> `Unsupported`, i.e. status "error"): assignments
(names, attributes, subscripts, tuple unpacking, annotated, augmented incl. in-place dunder
dispatch), if / for over concrete iterables / return / raise / pass, arithmetic + - *,
comparisons, and / or / not, conditional expressions, walrus, max / min / all / any / len /
isinstance / set / list / tuple / dict, attribute reads, calls of functions and methods
defined in the allowed modules (inlined), object construction through the real __init__,
dict / set / list / tuple displays with starred items, comprehensions and lazy generator
expressions over concrete iterables, copy.deepcopy. Exception ARGUMENTS are not evaluated
(messages are f-strings over __repr__).
"""

from __future__ import annotations

import ast
import inspect
import json
import operator
import os
import subprocess
import sys
import textwrap
import threading
import time
import types
from fractions import Fraction
from typing import Any, Callable, Optional

import z3

ROOT = os.path.dirname(os.path.dirname(os.path.abspath(__file__)))
PY = os.path.join(ROOT, ".venv", "bin", "python")
CVC5 = "/usr/bin/cvc5"


class Unsupported(Exception):
    """The translator refuses: construct outside the supported subset."""


class Raised(Exception):
    """The interpreted code raised `exc` (a class)."""

    def __init__(self, exc: type):
        super().__init__(exc.__name__)
        self.exc = exc


class _Return(Exception):
    def __init__(self, value):
        self.value = value


class Rec:
    """Instance of a translated class: attribute name -> value."""

    __slots__ = ("cls", "attrs")

    def __init__(self, cls: type):
        self.cls = cls
        self.attrs: dict = {}

    def __repr__(self):
        return f"<Rec {self.cls.__name__} {self.attrs}>"


class BoundMethod:
    __slots__ = ("rec", "fn")

    def __init__(self, rec, fn):
        self.rec = rec
        self.fn = fn


def is_sym(v) -> bool:
    return isinstance(v, z3.ExprRef)


def _num(v):
    """concrete python number -> z3 numeral (exact)."""
    if isinstance(v, bool):
        raise Unsupported("bool used as a number")
    if isinstance(v, int):
        return z3.IntVal(v)
    if isinstance(v, float):
        if v != v or v in (float("inf"), float("-inf")):
            raise Unsupported("non-finite float constant")
        return z3.RealVal(str(Fraction(v)))
    if isinstance(v, Fraction):
        return z3.RealVal(str(v))
    raise Unsupported(f"not a number: {type(v).__name__}")


def _arith_pair(a, b):
    a = a if is_sym(a) else _num(a)
    b = b if is_sym(b) else _num(b)
    if not (z3.is_arith(a) and z3.is_arith(b)):
        raise Unsupported("arithmetic on non-numeric terms")
    if a.sort() != b.sort():
        a = z3.ToReal(a) if z3.is_int(a) else a
        b = z3.ToReal(b) if z3.is_int(b) else b
    return a, b


# ------------------------------------------------------------------ sign reasoning


def _lin(t) -> Optional[tuple]:
    """z3 arithmetic term -> ({var name: coef}, const) if linear, else None."""
    if z3.is_rational_value(t) or z3.is_int_value(t):
        return ({}, Fraction(t.as_fraction()) if z3.is_rational_value(t) else Fraction(t.as_long()))
    if not z3.is_app(t):
        return None
    k = t.decl().kind()
    ch = t.children()
    if k == z3.Z3_OP_UNINTERPRETED and not ch:
        return ({t.decl().name(): Fraction(1)}, Fraction(0))
    if k == z3.Z3_OP_TO_REAL:
        return _lin(ch[0])
    if k in (z3.Z3_OP_ADD, z3.Z3_OP_SUB):
        acc: dict = {}
        const = Fraction(0)
        for i, c in enumerate(ch):
            l = _lin(c)
            if l is None:
                return None
            sign = -1 if (k == z3.Z3_OP_SUB and i > 0) else 1
            for n, v in l[0].items():
                acc[n] = acc.get(n, Fraction(0)) + sign * v
            const += sign * l[1]
        return (acc, const)
    if k == z3.Z3_OP_UMINUS:
        l = _lin(ch[0])
        return None if l is None else ({n: -v for n, v in l[0].items()}, -l[1])
    if k == z3.Z3_OP_MUL and len(ch) == 2:
        l0, l1 = _lin(ch[0]), _lin(ch[1])
        if l0 is None or l1 is None:
            return None
        if not l0[0]:
            return ({n: v * l0[1] for n, v in l1[0].items()}, l0[1] * l1[1])
        if not l1[0]:
            return ({n: v * l1[1] for n, v in l0[0].items()}, l0[1] * l1[1])
    return None


def _sign(t, nonneg) -> Optional[str]:
    """'zero' | 'pos' | 'nonneg' | 'neg' | 'nonpos' | None for a term, given vars >= 0."""
    l = _lin(t)
    if l is None:
        return None
    coefs = {n: v for n, v in l[0].items() if v != 0}
    if not coefs:
        return "zero" if l[1] == 0 else ("pos" if l[1] > 0 else "neg")
    if not all(n in nonneg for n in coefs):
        return None
    if all(v > 0 for v in coefs.values()) and l[1] >= 0:
        return "pos" if l[1] > 0 else "nonneg"
    if all(v < 0 for v in coefs.values()) and l[1] <= 0:
        return "neg" if l[1] < 0 else "nonpos"
    return None


_CMP_TABLE = {
    # kind: {sign of (lhs - rhs): truth}
    z3.Z3_OP_LT: {"zero": False, "pos": False, "nonneg": False, "neg": True},
    z3.Z3_OP_LE: {"zero": True, "pos": False, "neg": True, "nonpos": True},
    z3.Z3_OP_GT: {"zero": False, "pos": True, "neg": False, "nonpos": False},
    z3.Z3_OP_GE: {"zero": True, "pos": True, "nonneg": True, "neg": False},
    z3.Z3_OP_EQ: {"zero": True, "pos": False, "neg": False},
    z3.Z3_OP_DISTINCT: {"zero": False, "pos": True, "neg": True},
}


def _known(cond, nonneg) -> Optional[bool]:
    if z3.is_true(cond):
        return True
    if z3.is_false(cond):
        return False
    if not z3.is_app(cond):
        return None
    k = cond.decl().kind()
    ch = cond.children()
    if k == z3.Z3_OP_NOT:
        r = _known(ch[0], nonneg)
        return None if r is None else (not r)
    if k in _CMP_TABLE and len(ch) == 2 and z3.is_arith(ch[0]) and z3.is_arith(ch[1]):
        a, b = _arith_pair(ch[0], ch[1])
        s = _sign(a - b, nonneg)
        if s is None:
            return None
        return _CMP_TABLE[k].get(s)
    return None


# ------------------------------------------------------------------ interpreter

_SRC_CACHE: dict = {}


def _fn_ast(fn) -> ast.FunctionDef:
    key = fn.__code__
    if key not in _SRC_CACHE:
        try:
            src = textwrap.dedent(inspect.getsource(fn))
        except (OSError, TypeError) as e:
            raise Unsupported(f"no source for {fn!r}: {e}")
        node = ast.parse(src).body[0]
        if not isinstance(node, ast.FunctionDef):
            raise Unsupported(f"{fn.__qualname__}: not a plain function (async / decorated class?)")
        if node.decorator_list:
            raise Unsupported(f"{fn.__qualname__}: decorators are not supported")
        _SRC_CACHE[key] = node
    return _SRC_CACHE[key]


_BUILTINS = {
    "isinstance": isinstance, "set": set, "frozenset": frozenset, "list": list, "tuple": tuple,
    "dict": dict, "len": len, "max": max, "min": min, "all": all, "any": any,
    "True": True, "False": False, "None": None,
}  # fmt: skip
_CONTAINER_METHODS = {
    dict: {"keys", "values", "items", "get"},
    set: {"add", "union", "copy"},
    frozenset: {"union"},
    list: {"append", "extend"},
}
_BINOPS = {ast.Add: operator.add, ast.Sub: operator.sub, ast.Mult: operator.mul, ast.BitOr: operator.or_, ast.BitAnd: operator.and_}
_IBINOPS = {ast.Add: operator.iadd, ast.Sub: operator.isub, ast.Mult: operator.imul, ast.BitOr: operator.ior, ast.BitAnd: operator.iand}
_DUNDER = {ast.Add: "add", ast.Sub: "sub", ast.Mult: "mul", ast.BitOr: "or", ast.BitAnd: "and"}
_DICT_VIEWS = (type({}.keys()), type({}.values()), type({}.items()))


class Interp:
    def __init__(self, allow_modules, nonneg=(), max_steps: int = 2_000_000):
        self.allow_modules = set(allow_modules)
        self.nonneg = set(nonneg)
        self.prefix: list = []
        self.trace: list = []  # (cond, choice)
        self.lemmas: list = []  # (pc at that point, cond, value): pruned decisions
        self.steps = 0
        self.max_steps = max_steps
        self.functions_used: set = set()

    # ---- decisions
    def pc(self) -> list:
        return [c if ch else z3.Not(c) for c, ch in self.trace]

    def decide(self, cond) -> bool:
        if isinstance(cond, bool):
            return cond
        if not z3.is_bool(cond):
            raise Unsupported("decision on a non-boolean term")
        kn = _known(cond, self.nonneg)
        if kn is not None:
            if not (z3.is_true(cond) or z3.is_false(cond)):
                self.lemmas.append((self.pc(), cond, kn))
            return kn
        i = len(self.trace)
        choice = self.prefix[i] if i < len(self.prefix) else True
        self.trace.append((cond, choice))
        return choice

    def truth(self, v) -> bool:
        if is_sym(v):
            if z3.is_bool(v):
                return self.decide(v)
            if z3.is_arith(v):
                return self.decide(v != 0)
            raise Unsupported("truth value of a non-numeric term")
        if isinstance(v, Rec):
            for n in ("__bool__", "__len__"):
                if _class_fn(v.cls, n) is not None:
                    raise Unsupported(f"{v.cls.__name__}.{n} in a truth test")
            return True
        if isinstance(v, BoundMethod) or isinstance(v, (types.FunctionType, type)):
            return True
        return bool(v)

    # ---- calls
    def _allowed_fn(self, fn) -> bool:
        return isinstance(fn, types.FunctionType) and fn.__module__ in self.allow_modules

    def call(self, fn, args=(), kwargs=None):
        kwargs = dict(kwargs or {})
        args = list(args)
        if isinstance(fn, BoundMethod):
            return self.call(fn.fn, [fn.rec] + args, kwargs)
        if isinstance(fn, type) and fn not in (set, frozenset, list, tuple, dict):
            if issubclass(fn, BaseException):
                raise Unsupported("exception object used as a value")
            init = _class_fn(fn, "__init__")
            if fn.__module__ not in self.allow_modules or init is None:
                raise Unsupported(f"construction of {fn.__name__}")
            if _class_fn(fn, "__new__") is not None:
                raise Unsupported(f"{fn.__name__}.__new__")
            rec = Rec(fn)
            r = self.call(init, [rec] + args, kwargs)
            if r is not None:
                raise Unsupported("__init__ returned a value")
            return rec
        if self._allowed_fn(fn):
            return self._run_function(fn, args, kwargs)
        import copy as _copy

        if fn is _copy.deepcopy:
            if len(args) != 1 or kwargs:
                raise Unsupported("deepcopy with a memo")
            return self._deepcopy(args[0], {})
        if fn in (max, min):
            if kwargs or len(args) < 2:
                raise Unsupported("max/min over an iterable or with key")
            acc = args[0]
            for x in args[1:]:
                if is_sym(acc) or is_sym(x):
                    a, b = _arith_pair(acc, x)
                    # python: max keeps the first of equal values; values are equal anyway
                    acc = z3.If(b > a, b, a) if fn is max else z3.If(b < a, b, a)
                elif isinstance(acc, (int, float, Fraction)) and isinstance(x, (int, float, Fraction)):
                    acc = fn(acc, x)
                else:
                    raise Unsupported("max/min of non-numbers")
            return acc
        if fn in (all, any):
            if len(args) != 1 or kwargs:
                raise Unsupported("all/any arity")
            for x in self._iterate(args[0]):
                t = self.truth(x)
                if fn is all and not t:
                    return False
                if fn is any and t:
                    return True
            return fn is all
        if fn is isinstance:
            v, cls = args
            if isinstance(v, Rec):
                return issubclass(v.cls, cls)
            if is_sym(v) or isinstance(v, BoundMethod):
                raise Unsupported("isinstance of a term")
            return isinstance(v, cls)
        if fn is len:
            (v,) = args
            if isinstance(v, (dict, set, frozenset, list, tuple, str) + _DICT_VIEWS):
                return len(v)
            raise Unsupported("len of a non-container")
        if fn in (set, frozenset, list, tuple):
            if kwargs or len(args) > 1:
                raise Unsupported("container constructor arity")
            items = list(self._iterate(args[0])) if args else []
            if fn in (set, frozenset) and any(is_sym(x) or isinstance(x, Rec) for x in items):
                raise Unsupported("set of terms / objects")
            return fn(items)
        if fn is dict:
            if args or kwargs:
                raise Unsupported("dict(...) with arguments")
            return {}
        # bound method of a concrete container
        if isinstance(fn, types.BuiltinMethodType) and not isinstance(fn.__self__, types.ModuleType):
            owner = fn.__self__
            for typ, names in _CONTAINER_METHODS.items():
                if type(owner) is typ and fn.__name__ in names:
                    if fn.__name__ in ("get", "add") and args and (is_sym(args[0]) or isinstance(args[0], Rec)):
                        raise Unsupported("term used as a key / element")
                    if fn.__name__ in ("union", "extend"):
                        args = [list(self._iterate(a)) for a in args]
                    return fn(*args, **kwargs)
        raise Unsupported(f"call of {getattr(fn, '__qualname__', fn)!r}")

    def _run_function(self, fn, args, kwargs):
        node = _fn_ast(fn)
        self.functions_used.add(f"{fn.__module__}.{fn.__qualname__}")
        a = node.args
        if a.vararg or a.kwarg or a.posonlyargs:
            raise Unsupported(f"{fn.__qualname__}: *args/**kwargs/positional-only")
        names = [x.arg for x in a.args]
        env: dict = {}
        if len(args) > len(names):
            raise Unsupported(f"{fn.__qualname__}: too many arguments")
        for n, v in zip(names, args):
            env[n] = v
        for k, v in kwargs.items():
            if k in env or (k not in names and k not in [x.arg for x in a.kwonlyargs]):
                raise Unsupported(f"{fn.__qualname__}: bad keyword {k}")
            env[k] = v
        defaults = fn.__defaults__ or ()
        for n, d in zip(names[len(names) - len(defaults):], defaults):
            env.setdefault(n, d)
        for x in a.kwonlyargs:
            if x.arg not in env:
                if fn.__kwdefaults__ and x.arg in fn.__kwdefaults__:
                    env[x.arg] = fn.__kwdefaults__[x.arg]
        for n in names + [x.arg for x in a.kwonlyargs]:
            if n not in env:
                raise Unsupported(f"{fn.__qualname__}: missing argument {n}")
        frame = _Frame(self, fn, env)
        try:
            frame.exec_body(node.body)
        except _Return as r:
            return r.value
        return None

    def _iterate(self, it):
        if isinstance(it, (list, tuple, dict, range, types.GeneratorType) + _DICT_VIEWS):
            return iter(it)
        if isinstance(it, (set, frozenset)):
            # set order depends on the hash seed: only order-insensitive uses are allowed
            if all(isinstance(x, str) for x in it):
                return iter(sorted(it))
        raise Unsupported(f"iteration over {type(it).__name__}")

    def _deepcopy(self, v, memo):
        if id(v) in memo:
            return memo[id(v)]
        if isinstance(v, Rec):
            if _class_fn(v.cls, "__deepcopy__") or _class_fn(v.cls, "__reduce_ex__") or _class_fn(v.cls, "__reduce__"):
                raise Unsupported("custom copy protocol")
            r = Rec(v.cls)
            memo[id(v)] = r
            for k, x in v.attrs.items():
                r.attrs[k] = self._deepcopy(x, memo)
            return r
        if isinstance(v, dict):
            r = {}
            memo[id(v)] = r
            for k, x in v.items():
                r[self._deepcopy(k, memo)] = self._deepcopy(x, memo)
            return r
        if isinstance(v, list):
            r = []
            memo[id(v)] = r
            r.extend(self._deepcopy(x, memo) for x in v)
            return r
        if isinstance(v, set):
            r = set(v)
            memo[id(v)] = r
            return r
        if isinstance(v, tuple):
            return tuple(self._deepcopy(x, memo) for x in v)
        if is_sym(v) or v is None or isinstance(v, (str, int, float, bool, Fraction, frozenset)):
            return v
        raise Unsupported(f"deepcopy of {type(v).__name__}")

    # ---- operators on values
    def binop(self, op_type, a, b, inplace=False):
        if isinstance(a, Rec):
            name = _DUNDER.get(op_type)
            if name is None:
                raise Unsupported("operator on object")
            fn = _class_fn(a.cls, f"__i{name}__") if inplace else None
            fn = fn or _class_fn(a.cls, f"__{name}__")
            if fn is None:
                raise Unsupported(f"{a.cls.__name__} has no __{name}__")
            return self.call(fn, [a, b])
        if isinstance(b, Rec):
            raise Unsupported("reflected operator on object")
        if is_sym(a) or is_sym(b):
            if op_type not in (ast.Add, ast.Sub, ast.Mult):
                raise Unsupported("non-arithmetic operator on a term")
            x, y = _arith_pair(a, b)
            if op_type is ast.Mult and is_sym(a) and is_sym(b):
                raise Unsupported("non-linear multiplication")
            return _BINOPS[op_type](x, y)
        if op_type not in _BINOPS:
            raise Unsupported(f"operator {op_type.__name__}")
        ok = (int, float, Fraction, set, frozenset)
        if isinstance(a, bool) or isinstance(b, bool) or not isinstance(a, ok) or not isinstance(b, ok):
            raise Unsupported(f"operator on {type(a).__name__}, {type(b).__name__}")
        return (_IBINOPS if inplace else _BINOPS)[op_type](a, b)

    def compare(self, op, a, b):
        t = type(op)
        if t in (ast.Is, ast.IsNot):
            if is_sym(a) or is_sym(b):
                if a is None or b is None:
                    r = False  # a term is never None
                else:
                    raise Unsupported("identity of terms")
            else:
                r = a is b
            return r if t is ast.Is else not r
        if t in (ast.In, ast.NotIn):
            if is_sym(a) or isinstance(a, (Rec, BoundMethod)):
                raise Unsupported("membership test of a term / object")
            if isinstance(b, (list, tuple)):
                if any(is_sym(x) or isinstance(x, Rec) for x in b):
                    raise Unsupported("membership among terms / objects")
            elif not isinstance(b, (dict, set, frozenset, str, _DICT_VIEWS[0])):
                raise Unsupported(f"membership in {type(b).__name__}")
            r = a in b
            return r if t is ast.In else not r
        if isinstance(a, Rec) or isinstance(b, Rec):
            for r_ in (a, b):
                if isinstance(r_, Rec) and (_class_fn(r_.cls, "__eq__") or _class_fn(r_.cls, "__lt__") or _class_fn(r_.cls, "__ge__")):
                    raise Unsupported("rich comparison on objects")
            if t is ast.Eq:
                return a is b
            if t is ast.NotEq:
                return a is not b
            raise Unsupported("ordering of objects")
        if is_sym(a) or is_sym(b):
            if (is_sym(a) and z3.is_bool(a)) or (is_sym(b) and z3.is_bool(b)):
                raise Unsupported("comparison of boolean terms")
            if a is None or b is None or isinstance(a, str) or isinstance(b, str):
                if t is ast.Eq:
                    return False
                if t is ast.NotEq:
                    return True
                raise Unsupported("ordering term / non-number")
            x, y = _arith_pair(a, b)
            f = {ast.Eq: operator.eq, ast.NotEq: operator.ne, ast.Lt: operator.lt, ast.LtE: operator.le, ast.Gt: operator.gt, ast.GtE: operator.ge}.get(t)
            if f is None:
                raise Unsupported("comparison operator")
            return f(x, y)
        f = {ast.Eq: operator.eq, ast.NotEq: operator.ne, ast.Lt: operator.lt, ast.LtE: operator.le, ast.Gt: operator.gt, ast.GtE: operator.ge}.get(t)
        if f is None:
            raise Unsupported("comparison operator")
        ok = (int, float, Fraction, str, type(None), set, frozenset, tuple, list, dict) + _DICT_VIEWS
        if not isinstance(a, ok) or not isinstance(b, ok):
            raise Unsupported(f"comparison of {type(a).__name__}, {type(b).__name__}")
        return f(a, b)


def _class_fn(cls: type, name: str):
    """python-level function `name` defined on cls or a non-builtin base, else None."""
    for k in cls.__mro__:
        if k is object:
            break
        if name in k.__dict__:
            f = k.__dict__[name]
            return f if isinstance(f, types.FunctionType) else None
    return None


class _Frame:
    def __init__(self, it: Interp, fn, env: dict):
        self.it = it
        self.fn = fn
        self.env = env
        self.globals = fn.__globals__

    # ---- statements
    def exec_body(self, body):
        for st in body:
            self.exec(st)

    def exec(self, st):
        it = self.it
        it.steps += 1
        if it.steps > it.max_steps:
            raise Unsupported("step budget exhausted")
        if isinstance(st, ast.Expr):
            if isinstance(st.value, ast.Constant):
                return  # docstring
            self.eval(st.value)
        elif isinstance(st, ast.Assign):
            v = self.eval(st.value)
            for t in st.targets:
                self.assign(t, v)
        elif isinstance(st, ast.AnnAssign):
            if st.value is not None:
                self.assign(st.target, self.eval(st.value))
        elif isinstance(st, ast.AugAssign):
            cur = self.eval(_as_load(st.target))
            rhs = self.eval(st.value)
            self.assign(st.target, it.binop(type(st.op), cur, rhs, inplace=True))
        elif isinstance(st, ast.If):
            if it.truth(self.eval(st.test)):
                self.exec_body(st.body)
            else:
                self.exec_body(st.orelse)
        elif isinstance(st, ast.For):
            if st.orelse:
                raise Unsupported("for/else")
            for x in it._iterate(self.eval(st.iter)):
                self.assign(st.target, x)
                self.exec_body(st.body)  # break/continue are unsupported statements
        elif isinstance(st, ast.Return):
            raise _Return(self.eval(st.value) if st.value is not None else None)
        elif isinstance(st, ast.Raise):
            if st.cause is not None or st.exc is None:
                raise Unsupported("raise from / bare raise")
            e = st.exc
            target = e.func if isinstance(e, ast.Call) else e  # arguments are NOT evaluated
            cls = self.eval(target)
            if not (isinstance(cls, type) and issubclass(cls, Exception)):
                raise Unsupported("raise of a non-exception")
            raise Raised(cls)
        elif isinstance(st, ast.Pass):
            return
        else:
            raise Unsupported(f"statement {type(st).__name__} in {self.fn.__qualname__}")

    def assign(self, target, v):
        if isinstance(target, ast.Name):
            self.env[target.id] = v
        elif isinstance(target, ast.Attribute):
            obj = self.eval(target.value)
            if not isinstance(obj, Rec):
                raise Unsupported("attribute store on a non-object")
            slots = _all_slots(obj.cls)
            if slots is not None and target.attr not in slots:
                raise Raised(AttributeError)
            obj.attrs[target.attr] = v
        elif isinstance(target, ast.Subscript):
            obj = self.eval(target.value)
            key = self.eval(target.slice)
            if not isinstance(obj, (dict, list)) or is_sym(key) or isinstance(key, Rec):
                raise Unsupported("subscript store")
            try:
                obj[key] = v
            except IndexError:
                raise Raised(IndexError)
        elif isinstance(target, (ast.Tuple, ast.List)):
            vals = list(self.it._iterate(v))
            if len(vals) != len(target.elts) or any(isinstance(e, ast.Starred) for e in target.elts):
                raise Unsupported("unpacking")
            for e, x in zip(target.elts, vals):
                self.assign(e, x)
        else:
            raise Unsupported(f"assignment target {type(target).__name__}")

    # ---- expressions
    def eval(self, e):
        it = self.it
        it.steps += 1
        if it.steps > it.max_steps:
            raise Unsupported("step budget exhausted")
        if isinstance(e, ast.Constant):
            if isinstance(e.value, (int, float, str, bool, type(None))):
                return e.value
            raise Unsupported("constant")
        if isinstance(e, ast.Name):
            return self.lookup(e.id)
        if isinstance(e, ast.Attribute):
            return self.getattr(self.eval(e.value), e.attr)
        if isinstance(e, ast.Subscript):
            obj = self.eval(e.value)
            key = self.eval(e.slice)
            if is_sym(key) or isinstance(key, Rec) or not isinstance(obj, (dict, list, tuple)):
                raise Unsupported("subscript")
            try:
                return obj[key]
            except KeyError:
                raise Raised(KeyError)
            except IndexError:
                raise Raised(IndexError)
        if isinstance(e, ast.Call):
            fn = self.eval(e.func)
            args = []
            for a in e.args:
                if isinstance(a, ast.Starred):
                    args.extend(it._iterate(self.eval(a.value)))
                else:
                    args.append(self.eval(a))
            kwargs = {}
            for k in e.keywords:
                if k.arg is None:
                    raise Unsupported("**kwargs")
                kwargs[k.arg] = self.eval(k.value)
            return it.call(fn, args, kwargs)
        if isinstance(e, ast.BinOp):
            return it.binop(type(e.op), self.eval(e.left), self.eval(e.right))
        if isinstance(e, ast.UnaryOp):
            v = self.eval(e.operand)
            if isinstance(e.op, ast.Not):
                if is_sym(v) and z3.is_bool(v):
                    return z3.Not(v)
                return not it.truth(v)
            if isinstance(e.op, ast.USub):
                if is_sym(v):
                    return -v
                if isinstance(v, (int, float, Fraction)) and not isinstance(v, bool):
                    return -v
            raise Unsupported("unary operator")
        if isinstance(e, ast.BoolOp):
            v = None
            for i, sub in enumerate(e.values):
                v = self.eval(sub)
                if i == len(e.values) - 1:
                    return v
                t = it.truth(v)
                if isinstance(e.op, ast.And) and not t:
                    return False if (is_sym(v) and z3.is_bool(v)) else v
                if isinstance(e.op, ast.Or) and t:
                    return True if (is_sym(v) and z3.is_bool(v)) else v
            return v
        if isinstance(e, ast.Compare):
            left = self.eval(e.left)
            result: Any = True
            for op, right_e in zip(e.ops, e.comparators):
                right = self.eval(right_e)
                r = it.compare(op, left, right)
                if len(e.ops) == 1:
                    return r
                if not it.truth(r):
                    return False
                left = right
            return result
        if isinstance(e, ast.IfExp):
            return self.eval(e.body) if it.truth(self.eval(e.test)) else self.eval(e.orelse)
        if isinstance(e, ast.NamedExpr):
            v = self.eval(e.value)
            self.assign(e.target, v)
            return v
        if isinstance(e, (ast.Tuple, ast.List, ast.Set)):
            items = []
            for x in e.elts:
                if isinstance(x, ast.Starred):
                    items.extend(it._iterate(self.eval(x.value)))
                else:
                    items.append(self.eval(x))
            if isinstance(e, ast.Tuple):
                return tuple(items)
            if isinstance(e, ast.List):
                return items
            if any(is_sym(x) or isinstance(x, Rec) for x in items):
                raise Unsupported("set of terms / objects")
            return set(items)
        if isinstance(e, ast.Dict):
            d = {}
            for k, v in zip(e.keys, e.values):
                if k is None:
                    raise Unsupported("dict unpacking")
                kk = self.eval(k)
                if is_sym(kk) or isinstance(kk, Rec):
                    raise Unsupported("term used as a dict key")
                d[kk] = self.eval(v)
            return d
        if isinstance(e, ast.GeneratorExp):
            return self._comp(e.elt, e.generators, dict(self.env))
        if isinstance(e, ast.ListComp):
            return list(self._comp(e.elt, e.generators, dict(self.env)))
        if isinstance(e, ast.SetComp):
            items = list(self._comp(e.elt, e.generators, dict(self.env)))
            if any(is_sym(x) or isinstance(x, Rec) for x in items):
                raise Unsupported("set of terms / objects")
            return set(items)
        if isinstance(e, ast.DictComp):
            d = {}
            for k, v in self._comp(ast.Tuple(elts=[e.key, e.value], ctx=ast.Load()), e.generators, dict(self.env)):
                if is_sym(k) or isinstance(k, Rec):
                    raise Unsupported("term used as a dict key")
                d[k] = v
            return d
        raise Unsupported(f"expression {type(e).__name__} in {self.fn.__qualname__}")

    def _comp(self, elt, generators, env):
        """lazy comprehension in its own scope (reads the enclosing scope as of creation)."""
        sub = _Frame(self.it, self.fn, env)

        def rec(i):
            if i == len(generators):
                yield sub.eval(elt)
                return
            g = generators[i]
            if g.is_async:
                raise Unsupported("async comprehension")
            for x in self.it._iterate(sub.eval(g.iter)):
                sub.assign(g.target, x)
                if all(self.it.truth(sub.eval(c)) for c in g.ifs):
                    yield from rec(i + 1)

        return rec(0)

    def lookup(self, name):
        if name in self.env:
            return self.env[name]
        if name in self.globals:
            v = self.globals[name]
            if isinstance(v, type):
                if v.__module__ in self.it.allow_modules or issubclass(v, BaseException):
                    return v
                raise Unsupported(f"class {name}")
            if isinstance(v, types.ModuleType):
                if v.__name__ in ("os", "copy"):
                    return v
                raise Unsupported(f"module {name}")
            if isinstance(v, types.FunctionType):
                if v.__module__ in self.it.allow_modules:
                    return v
                raise Unsupported(f"function {v.__module__}.{name}")
            if isinstance(v, (int, float, str, tuple, frozenset)) or v is None:
                return v
            raise Unsupported(f"global {name}")
        if name in _BUILTINS:
            return _BUILTINS[name]
        bi = __builtins__ if isinstance(__builtins__, dict) else vars(__builtins__)
        if name in bi and isinstance(bi[name], type) and issubclass(bi[name], BaseException):
            return bi[name]
        raise Unsupported(f"name {name}")

    def getattr(self, obj, attr):
        if isinstance(obj, Rec):
            if attr in obj.attrs:
                return obj.attrs[attr]
            fn = _class_fn(obj.cls, attr)
            if fn is not None:
                return BoundMethod(obj, fn)
            slots = _all_slots(obj.cls)
            if slots is not None and attr in slots:
                raise Raised(AttributeError)
            raise Unsupported(f"attribute {obj.cls.__name__}.{attr}")
        if isinstance(obj, type):
            fn = _class_fn(obj, attr)
            if fn is not None and obj.__module__ in self.it.allow_modules:
                return fn
            raise Unsupported(f"class attribute {obj.__name__}.{attr}")
        if isinstance(obj, types.FunctionType):
            if attr == "__call__":
                return obj
            raise Unsupported("function attribute")
        if isinstance(obj, types.ModuleType):
            if (obj.__name__, attr) in (("os", "sep"), ("copy", "deepcopy")):
                return getattr(obj, attr)
            raise Unsupported(f"{obj.__name__}.{attr}")
        for typ, names in _CONTAINER_METHODS.items():
            if type(obj) is typ and attr in names:
                return getattr(obj, attr)
        raise Unsupported(f"attribute {attr} of {type(obj).__name__}")


def _as_load(target):
    import copy as _copy

    t = _copy.copy(target)
    t.ctx = ast.Load()
    return t


def _all_slots(cls):
    out = set()
    for k in cls.__mro__:
        if k is object:
            continue
        if "__slots__" not in k.__dict__:
            return None
        s = k.__dict__["__slots__"]
        out.update([s] if isinstance(s, str) else s)
    return out


# ------------------------------------------------------------------ path enumeration


class Path:
    __slots__ = ("pc", "kind", "value", "exc", "ctx", "lemmas")

    def __init__(self, pc, kind, value, exc, ctx, lemmas):
        self.pc, self.kind, self.value, self.exc, self.ctx, self.lemmas = pc, kind, value, exc, ctx, lemmas


def explore(thunk: Callable[[Interp, dict], Any], allow_modules, nonneg=(), max_paths: int = 4000):
    """Run `thunk(interp, ctx)` once per feasible-looking decision vector. Returns (paths, functions)."""
    paths, prefix, used = [], [], set()
    while True:
        it = Interp(allow_modules, nonneg)
        it.prefix = prefix
        ctx: dict = {}
        try:
            val = thunk(it, ctx)
            p = Path(it.pc(), "return", val, None, ctx, it.lemmas)
        except Raised as r:
            p = Path(it.pc(), "raise", None, r.exc, ctx, it.lemmas)
        except RecursionError:
            raise Unsupported("recursion too deep")
        paths.append(p)
        used |= it.functions_used
        if len(paths) > max_paths:
            raise Unsupported("path explosion")
        tr = it.trace
        j = len(tr) - 1
        while j >= 0 and tr[j][1] is False:
            j -= 1
        if j < 0:
            return paths, used
        prefix = [c for _, c in tr[:j]] + [False]


def vc_disjuncts(paths, prop: Callable[[Path], Any]) -> list:
    """[(label, formula that is satisfiable iff something is wrong)] for one kernel instance:
    a path violating `prop`, a pruned decision that does not follow, or a hole in the case split."""
    out = []
    pcs = []
    for i, p in enumerate(paths):
        pc = z3.And(*p.pc) if p.pc else z3.BoolVal(True)
        pcs.append(pc)
        ok = prop(p)
        ok = z3.BoolVal(bool(ok)) if not is_sym(ok) else ok
        out.append((f"path{i}", z3.And(pc, z3.Not(ok))))
        for j, (lpc, cond, val) in enumerate(p.lemmas):
            out.append((f"path{i}.prune{j}", z3.And(*lpc, (z3.Not(cond) if val else cond))))
    out.append(("coverage", z3.Not(z3.Or(*pcs))))
    return out


# ------------------------------------------------------------------ concrete evaluation of an encoding


def obs(v, classes=()):
    """structure-preserving observation usable on Recs and on real objects alike."""
    if isinstance(v, Rec):
        return ("obj", v.cls.__name__, tuple((k, obs(x, classes)) for k, x in sorted(v.attrs.items())))
    if classes and isinstance(v, tuple(classes)):
        names = sorted(_all_slots(type(v)) or vars(v).keys())
        return ("obj", type(v).__name__, tuple((k, obs(getattr(v, k), classes)) for k in names if hasattr(v, k)))
    if isinstance(v, dict):
        return ("dict", tuple((k, obs(x, classes)) for k, x in v.items()))
    if isinstance(v, (set, frozenset)):
        return ("set", tuple(sorted(v)))
    if isinstance(v, (list, tuple)):
        return ("seq", tuple(obs(x, classes) for x in v))
    if isinstance(v, bool) or v is None or isinstance(v, str):
        return v
    if isinstance(v, (int, float, Fraction)):
        return Fraction(v)
    if is_sym(v):
        return v
    raise Unsupported(f"cannot observe {type(v).__name__}")


def _subst(term, binding):
    r = z3.simplify(z3.substitute(term, *binding))
    if z3.is_true(r):
        return True
    if z3.is_false(r):
        return False
    if z3.is_int_value(r):
        return Fraction(r.as_long())
    if z3.is_rational_value(r):
        return Fraction(r.as_fraction())
    raise Unsupported(f"term does not evaluate to a value: {r}")


def concretize(o, binding):
    if is_sym(o):
        return _subst(o, binding)
    if isinstance(o, tuple):
        return tuple(concretize(x, binding) for x in o)
    return o


def eval_encoding(paths, variables: dict, values: dict, observe: Callable[[Path], Any]):
    """Evaluate an encoding (set of paths) on concrete values: exactly one path condition must
    hold; returns ('return', observation) or ('raise', exception name)."""
    binding = []
    for n, var in variables.items():
        v = values[n]
        binding.append((var, z3.IntVal(int(v)) if z3.is_int(var) else z3.RealVal(str(Fraction(v)))))
    hit = []
    for p in paths:
        if all(_subst(c, binding) is True for c in p.pc):
            hit.append(p)
    if len(hit) != 1:
        raise Unsupported(f"{len(hit)} path conditions hold for {values} (must be exactly 1)")
    p = hit[0]
    if p.kind == "raise":
        return ("raise", p.exc.__name__)
    return ("return", concretize(observe(p), binding))


# ------------------------------------------------------------------ solvers


def to_smt2(assertions, logic: str = "ALL") -> str:
    s = z3.Solver()
    for a in assertions:
        s.add(a)
    return f"(set-logic {logic})\n" + s.to_smt2()


_Z3_SNIPPET = (
    "import sys, z3\n"
    "s = z3.Solver()\n"
    "s.from_file(sys.argv[1])\n"
    "print(s.check())\n"
)


def _run(cmd, timeout):
    t0 = time.time()
    try:
        p = subprocess.run(cmd, capture_output=True, text=True, timeout=timeout)
        out = (p.stdout + "\n" + p.stderr).strip()
    except subprocess.TimeoutExpired:
        return "timeout", round(time.time() - t0, 2)
    if "(error" in out.lower():
        return "error: " + out[:300], round(time.time() - t0, 2)
    first = out.split()[0] if out.split() else ""
    if first in ("sat", "unsat", "unknown"):
        return first, round(time.time() - t0, 2)
    return "error: " + out[:300], round(time.time() - t0, 2)


def run_solvers(smt2_text: str, path: str, timeout: float = 300.0) -> dict:
    """Write the query and ask z3 (python module, subprocess) and cvc5 (binary) in parallel."""
    os.makedirs(os.path.dirname(path), exist_ok=True)
    with open(path, "w") as f:
        f.write(smt2_text)
    res: dict = {}

    def go(name, cmd):
        res[name], res[name + "_s"] = _run(cmd, timeout)

    ts = [
        threading.Thread(target=go, args=("z3", [PY, "-c", _Z3_SNIPPET, path])),
        threading.Thread(target=go, args=("cvc5", [CVC5, "--lang=smt2", path])),
    ]
    for t in ts:
        t.start()
    for t in ts:
        t.join()
    return res


def verdict(res: dict, expect: str = "unsat") -> str:
    """both solvers must give `expect`; both giving the opposite -> that; else unknown/error."""
    a, b = res.get("z3", ""), res.get("cvc5", "")
    if a == b and a in ("sat", "unsat"):
        return a
    if a.startswith("error") or b.startswith("error"):
        return "error"
    return "unknown"


def smt_dir(prop: str) -> str:
    return os.path.join(ROOT, "harness", "_gen", prop, "smt")


# ------------------------------------------------------------------ subprocess entry point


def in_subprocess(module: str, func: str, args: list, timeout: float = 1800.0) -> dict:
    """Run `module.func(*args)` (must return a JSON-able dict) in a fresh interpreter, so that
    CPU-bound translation does not serialise on the runner's GIL."""
    env = dict(os.environ)
    env["PYTHONPATH"] = ROOT + os.pathsep + env.get("PYTHONPATH", "")
    env["PYTHONDONTWRITEBYTECODE"] = "1"
    try:
        p = subprocess.run(
            [PY, "-m", "lib.smtx", module, func, json.dumps(args)],
            cwd=ROOT, capture_output=True, text=True, timeout=timeout, env=env,
        )
    except subprocess.TimeoutExpired:
        return {"status": "unknown", "detail": f"smtx worker timed out after {timeout}s"}
    for line in p.stdout.splitlines():
        if line.startswith("SMTXRESULT "):
            return json.loads(line[len("SMTXRESULT "):])
    return {"status": "error", "detail": ("smtx worker crashed: " + (p.stderr or p.stdout))[-1500:]}


def _main() -> int:
    import importlib
    import traceback

    module, func, args = sys.argv[1], sys.argv[2], json.loads(sys.argv[3])
    sys.setrecursionlimit(20000)
    try:
        r = getattr(importlib.import_module(module), func)(*args)
    except Unsupported as e:
        r = {"status": "error", "detail": f"translator refused: {e}"}
    except Exception:
        r = {"status": "error", "detail": traceback.format_exc()[-1500:]}
    print("SMTXRESULT " + json.dumps(r, default=str))
    return 0


if __name__ == "__main__":
    sys.exit(_main())
