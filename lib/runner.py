"""Check runner: python -m lib.runner <PROP> [--tier quick|thorough]

For property <PROP> it imports harness/<PROP>.py, asks it for its obligations
(`specs(tier)`), writes each generated harness file under harness/_gen/<PROP>/,
runs every obligation (CrossHair symbolic execution or an smtx SMT query) in
parallel, replays every counterexample natively and writes evidence/<PROP>.json.

Exit codes: 0 = every obligation confirmed by the solver over all paths within
its bound and every reachability twin refuted; 1 = a counterexample that
replays natively against /repo and is not a listed known finding (prints
`VIOLATION property=<id> replay=<path>`); 3 = inconclusive / harness error
(time-out, unknown, non-reproducing counterexample, vacuous precondition).
"""

from __future__ import annotations

import argparse
import concurrent.futures as cf
import dataclasses
import importlib
import json
import os
import re
import shutil
import subprocess
import sys
import time
from typing import Any, Callable, Optional

ROOT = os.path.dirname(os.path.dirname(os.path.abspath(__file__)))
PY = os.path.join(ROOT, ".venv", "bin", "python")
# VERIF_OUT redirects everything a run writes (generated harnesses, replays, evidence) to a scratch
# directory: used when a check is run against a scratch tree (seeded changes), so that the committed
# evidence always describes /repo itself.
_OUT = os.environ.get("VERIF_OUT")
GEN = os.path.join(_OUT, "_gen") if _OUT else os.path.join(ROOT, "harness", "_gen")
REPLAYS = os.path.join(_OUT, "replays") if _OUT else os.path.join(ROOT, "replays")
EVID = os.path.join(_OUT, "evidence") if _OUT else os.path.join(ROOT, "evidence")
KNOWN = os.path.join(ROOT, "known_findings.json")
HARNESS_ERROR = 3


@dataclasses.dataclass
class Spec:
    """One solver obligation."""

    name: str
    source: str = ""  # python source of the generated harness file (kind=xh)
    func: str = "h"
    twin: Optional[str] = "h_twin"  # must be REFUTED (reachability witness)
    cond: float = 120.0  # per-condition CPU budget for CrossHair
    path: float = 30.0  # per-path budget
    bound: str = ""  # the precondition in words: this IS the claim's bound
    symbolic: str = ""  # which inputs are solver variables
    targets: tuple = ()  # functions of /repo executed symbolically
    kind: str = "xh"  # "xh" (CrossHair) | "smt" (smtx SMT-LIB query)
    smt: Optional[Callable[[], dict]] = None  # kind=smt: returns result dict
    group: str = ""  # lemma this obligation belongs to
    finding_key: Optional[Callable[[str], Optional[str]]] = None


def mk_source(
    imports: str,
    params: str,
    pre: list,
    call: str,
    extra: str = "",
    raises: str = "",
) -> str:
    """Build a harness file: `h` (post: _) + reachability twin (post: not _)."""
    args = ", ".join(p.split(":")[0].strip() for p in _split_params(params))
    pre_lines = "".join(f"    pre: {p}\n" for p in pre)
    rz = f"    raises: {raises}\n" if raises else ""
    return (
        "import logging\nlogging.disable(logging.CRITICAL)\n"
        f"{imports}\n{extra}\n"
        f"def h({params}) -> bool:\n"
        f'    """\n{pre_lines}{rz}    post: _\n    """\n'
        f"    return {call}\n\n"
        f"def h_twin({params}) -> bool:\n"
        f'    """\n{pre_lines}{rz}    post: not _\n    """\n'
        f"    return h({args})\n"
    )


def _split_params(params: str) -> list:
    out, depth, cur = [], 0, ""
    for ch in params:
        if ch in "[(":
            depth += 1
        elif ch in "])":
            depth -= 1
        if ch == "," and depth == 0:
            out.append(cur)
            cur = ""
        else:
            cur += ch
    if cur.strip():
        out.append(cur)
    return out


_CALL_RE = re.compile(r"when calling (\w+\(.*\))(?: \(which (?:returns|raises) .*\))?\s*$", re.S)


def _extract_call(message: str) -> Optional[str]:
    m = _CALL_RE.search(message)
    if not m:
        return None
    call = m.group(1)
    # cut a trailing " (which returns ...)" that the greedy match may include
    idx = call.rfind(") (which ")
    if idx != -1:
        call = call[: idx + 1]
    return call


def _run_worker(file: str, func: str, cond: float, path: float) -> dict:
    t0 = time.time()
    hard = cond * 3 + 120  # wall-clock guard only (cond is CPU time); generous so that a loaded box does not turn into a spurious inconclusive
    try:
        p = subprocess.run(
            [PY, "-m", "lib.xh_worker", file, func, "--cond", str(cond), "--path", str(path)],
            cwd=ROOT,
            capture_output=True,
            text=True,
            timeout=hard,
            env=_env(),
        )
        out = p.stdout
        err = p.stderr
    except subprocess.TimeoutExpired as e:
        return {"func": func, "status": "timeout", "messages": [], "paths": 0, "wall_s": time.time() - t0}
    res = None
    for line in out.splitlines():
        if line.startswith("XHRESULT "):
            res = json.loads(line[len("XHRESULT "):])
    if res is None:
        res = {
            "func": func,
            "status": "error",
            "messages": [{"state": "CRASH", "message": (err or out)[-2000:]}],
            "paths": 0,
        }
    res["wall_s"] = round(time.time() - t0, 2)
    return res


def _env() -> dict:
    e = dict(os.environ)
    e["PYTHONPATH"] = ROOT + os.pathsep + e.get("PYTHONPATH", "")
    e["PYTHONHASHSEED"] = "0"
    e["PYTHONDONTWRITEBYTECODE"] = "1"
    e["STREAMFLOW_VERIF"] = "1"
    return e


REPLAY_TMPL = '''#!/usr/bin/env python
"""Stand-alone native replay of a solver counterexample (no CrossHair).
property={prop} obligation={name}
Run with: /verif/.venv/bin/python {path}
Exit 1 = the property is violated by /repo's current code on this input.
"""
import importlib.util, sys, traceback
sys.path.insert(0, {root!r})
spec = importlib.util.spec_from_file_location("gen_harness", {file!r})
mod = importlib.util.module_from_spec(spec); spec.loader.exec_module(mod)
try:
    r = eval({call!r}, vars(mod))
except Exception:
    traceback.print_exc()
    print("REPLAY: exception => violated")
    sys.exit(1)
print("REPLAY: harness returned", r)
sys.exit(0 if r else 1)
'''


def _replay(prop: str, spec: Spec, file: str, call: str) -> tuple:
    os.makedirs(os.path.join(REPLAYS, prop), exist_ok=True)
    path = os.path.join(REPLAYS, prop, f"{spec.name}.py")
    # keep the harness file next to the replay so it stays self-contained
    keep = os.path.join(REPLAYS, prop, f"{spec.name}__harness.py")
    shutil.copyfile(file, keep)
    with open(path, "w") as f:
        f.write(REPLAY_TMPL.format(prop=prop, name=spec.name, path=path, root=ROOT, file=keep, call=call))
    try:
        p = subprocess.run([PY, path], cwd=ROOT, capture_output=True, text=True, timeout=300, env=_env())
    except subprocess.TimeoutExpired:
        return (path, True, "replay timed out (treated as livelock)")
    return (path, p.returncode == 1, (p.stdout + p.stderr)[-1500:])


def _do_spec(prop: str, spec: Spec) -> dict:
    rec: dict[str, Any] = {
        "name": spec.name,
        "group": spec.group,
        "bound": spec.bound,
        "symbolic": spec.symbolic,
        "targets": list(spec.targets),
        "kind": spec.kind,
    }
    if spec.kind == "smt":
        t0 = time.time()
        try:
            r = spec.smt()
        except Exception as e:  # translator refused etc.
            import traceback

            r = {"status": "error", "detail": traceback.format_exc()[-2000:]}
        rec.update(r)
        rec["wall_s"] = round(time.time() - t0, 2)
        rec.setdefault("paths", 0)
        return rec
    d = os.path.join(GEN, prop)
    os.makedirs(d, exist_ok=True)
    file = os.path.join(d, f"{spec.name}.py")
    with open(file, "w") as f:
        f.write(spec.source)
    main = _run_worker(file, spec.func, spec.cond, spec.path)
    rec["status"] = main["status"]
    rec["paths"] = main.get("paths", 0)
    rec["confirmed_paths"] = main.get("confirmed_paths", 0)
    rec["cpu_s"] = main.get("cpu_s")
    rec["wall_s"] = main.get("wall_s")
    rec["messages"] = [m.get("message", "")[:600] for m in main.get("messages", [])]
    if main["status"] == "refuted":
        msg = main["messages"][-1]["message"]
        for m in main["messages"]:
            if m["state"] in ("POST_FAIL", "EXEC_ERR", "POST_ERR"):
                msg = m["message"]
                break
        call = _extract_call(msg)
        rec["cex"] = call
        if call is None or "patch_to_return" in msg:
            rec["status"] = "error"
            rec["detail"] = "counterexample not replayable: " + msg[:500]
            tb = [m.get("traceback", "") for m in main["messages"]]
            rec["traceback"] = tb[-1][-1500:] if tb else ""
        else:
            path, reproduced, log = _replay(prop, spec, file, call)
            rec["replay"] = path
            rec["replay_log"] = log[-800:]
            if reproduced:
                rec["status"] = "violated"
                if spec.finding_key is not None:
                    rec["finding_key"] = spec.finding_key(call)
            else:
                rec["status"] = "error"
                rec["detail"] = "counterexample did not reproduce natively (encoding/stub problem)"
    elif main["status"] == "confirmed" and spec.twin:
        tw = _run_worker(file, spec.twin, min(spec.cond, 120.0), spec.path)
        rec["twin_status"] = tw["status"]
        rec["twin_paths"] = tw.get("paths", 0)
        tmsg = [m.get("message", "") for m in tw.get("messages", [])]
        rec["witness"] = (_extract_call(tmsg[-1]) if tmsg else None)
        if tw["status"] != "refuted":
            rec["status"] = "vacuous"
            rec["detail"] = f"reachability twin not refuted ({tw['status']}): {tmsg[-1][:300] if tmsg else ''}"
    return rec


def load_known() -> dict:
    if not os.path.exists(KNOWN):
        return {"findings": [], "fixed": []}
    with open(KNOWN) as f:
        return json.load(f)


def main() -> int:
    ap = argparse.ArgumentParser()
    ap.add_argument("prop")
    ap.add_argument("--tier", default=os.environ.get("VERIF_TIER", "quick"))
    ap.add_argument("--only", default=None, help="regex on obligation names (debug)")
    ap.add_argument("--jobs", type=int, default=int(os.environ.get("VERIF_JOBS", "16")))
    a = ap.parse_args()
    prop, tier = a.prop, a.tier
    seed = int(os.environ.get("VERIF_SEED", "0") or 0)
    t0 = time.time()
    sys.path.insert(0, ROOT)
    shutil.rmtree(os.path.join(GEN, prop), ignore_errors=True)
    shutil.rmtree(os.path.join(REPLAYS, prop), ignore_errors=True)
    mod = importlib.import_module(f"harness.{prop}")
    specs: list = mod.specs(tier)
    if a.only:
        specs = [s for s in specs if re.search(a.only, s.name)]
    # VERIF_SEED only permutes dispatch order
    import random

    rnd = random.Random(seed)
    order = list(range(len(specs)))
    # longest budgets first, ties shuffled by seed
    rnd.shuffle(order)
    order.sort(key=lambda i: -specs[i].cond)
    results: list = [None] * len(specs)
    with cf.ThreadPoolExecutor(max_workers=a.jobs) as ex:
        futs = {ex.submit(_do_spec, prop, specs[i]): i for i in order}
        for fut in cf.as_completed(futs):
            i = futs[fut]
            try:
                results[i] = fut.result()
            except Exception as e:
                results[i] = {"name": specs[i].name, "status": "error", "detail": repr(e), "paths": 0}
            r = results[i]
            print(
                f"[{prop}] {r['name']}: {r['status']} paths={r.get('paths')} "
                f"wall={r.get('wall_s')}s {r.get('detail', '')[:200]}",
                flush=True,
            )
    known = load_known()
    known_keys = {
        (k["property"], k["obligation"], k.get("key")): k for k in known.get("findings", [])
    }
    violations, known_hits, inconclusive = [], [], []
    for r in results:
        st = r["status"]
        if st in ("confirmed", "unsat"):
            continue
        if st == "violated":
            kk = None
            for (p_, ob, key), k in known_keys.items():
                if p_ == prop and re.fullmatch(ob, r["name"]) and (key is None or key == r.get("finding_key")):
                    kk = k
            if kk is not None:
                known_hits.append((r, kk))
            else:
                violations.append(r)
        else:
            inconclusive.append(r)
    extra = getattr(mod, "evidence_extra", lambda tier: {})(tier)
    if a.only:
        extra = dict(extra)
        extra["partial_run_filter"] = a.only  # debugging run over a subset of the obligations: NOT the registered check
    level = getattr(mod, "LEVEL", "other")
    total_paths = sum(int(r.get("paths") or 0) for r in results)
    conf_paths = sum(int(r.get("confirmed_paths") or 0) for r in results if r["status"] in ("confirmed",))
    discharged = sum(1 for r in results if r["status"] in ("confirmed", "unsat"))
    samples = []
    for r in results[:]:
        s = {"obligation": r["name"], "verdict": r["status"], "bound": r.get("bound")}
        if r.get("witness"):
            s["reachability_witness"] = r["witness"]
        if r.get("cex"):
            s["counterexample"] = r["cex"]
        samples.append(s)
    targets = sorted({t for r in results for t in r.get("targets", [])})
    ev = {
        "property_id": prop,
        "tier": tier if tier in ("quick", "thorough") else "quick",
        "seed": seed,
        "level": level,
        "coverage": {
            "explanation": getattr(mod, "EXPLANATION", "")
            + " Each obligation is a harness function over the real /repo code whose inputs are z3 variables; "
            "CrossHair explores its path tree and reports 'Confirmed over all paths' only when the tree is exhausted "
            "within the stated bound; every confirmed obligation also has a reachability twin that the solver must refute.",
            "obligations": len(results),
            "discharged": discharged,
            "evaluations": total_paths,
            "distinct_nontrivial": conf_paths,
            "rule": "evaluations = symbolic paths explored by CrossHair over all obligations (each path is a distinct "
            "sequence of solver decisions, i.e. a distinct input class; SMT obligations count 0 paths); distinct_nontrivial = paths "
            "that ran to the final assertion and were confirmed, in obligations whose whole path tree was exhausted",
            "samples": samples[:40],
            "functions_encoded": targets,
            "solver_cpu_s": round(sum(float(r.get("cpu_s") or 0) for r in results), 1),
            "exhaustive": False,
            "checker_cmd": f"./check {prop} --tier {tier}",
            "trusted_base": ["CrossHair 0.0.110 symbolic semantics of CPython", "z3 5.1.0", "harness stubs listed under assumptions"],
            "per_obligation": [
                {k: r.get(k) for k in ("name", "group", "status", "paths", "confirmed_paths", "cpu_s", "wall_s", "twin_status", "bound", "symbolic", "kind", "solvers", "detail")}
                for r in results
            ],
            **extra,
        },
        "assumptions": list(getattr(mod, "ASSUMPTIONS", [])),
        "wall_s": round(time.time() - t0, 1),
        "violations": len(violations),
    }
    os.makedirs(EVID, exist_ok=True)
    with open(os.path.join(EVID, f"{prop}.json"), "w") as f:
        json.dump(ev, f, indent=1, default=str)
    for r, k in known_hits:
        print(f"KNOWN-FINDING: property={prop} {k['what']} (obligation {r['name']}, cex {r.get('cex')})")
    for r in violations:
        print(f"VIOLATION property={prop} replay={r.get('replay')}")
        print(f"  obligation={r['name']} counterexample={r.get('cex')}\n  {r.get('replay_log', '')[-600:]}")
    if violations:
        return 1
    if inconclusive:
        for r in inconclusive:
            print(f"INCONCLUSIVE property={prop} obligation={r['name']} status={r['status']} {r.get('detail', '')} {r.get('messages', '')}")
        return HARNESS_ERROR
    print(f"OK property={prop} tier={tier} obligations={len(results)} discharged={discharged} paths={total_paths} wall={ev['wall_s']}s")
    return 0


if __name__ == "__main__":
    sys.exit(main())
