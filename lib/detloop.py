"""DetLoop — a deterministic asyncio event loop that can run under CrossHair.

No selector, no threads, no wall clock. `time()` is a virtual clock that only
advances (to the earliest timer) when nothing is ready. Tasks hash to their
creation index so the sets built by asyncio.wait iterate deterministically.
When more than one callback is ready, the next one to run can be picked by a
*chooser* fed with symbolic integers, so the interleaving itself becomes a
solver variable (first K choice points; FIFO afterwards).
"""

from __future__ import annotations

import asyncio
import contextvars
import heapq
from asyncio import events, futures, tasks
from typing import Any, Callable, Optional


class Deadlock(Exception):
    """Quiescent (nothing ready, no timers) while the awaited future is pending."""


class Livelock(Exception):
    """Step budget exceeded."""


class Prune(BaseException):
    """A symbolic choice was outside the range available at this choice point.

    The same schedule is reached through an in-range value, so the path carries
    no information: harnesses catch it and return True (vacuous)."""


class _Handle:
    __slots__ = ("cb", "args", "ctx", "cancelled_", "when", "seq", "loop")

    def __init__(self, cb, args, ctx, loop, when=None, seq=0):
        self.cb, self.args, self.ctx, self.loop = cb, args, ctx, loop
        self.cancelled_ = False
        self.when = when
        self.seq = seq

    def cancel(self):
        self.cancelled_ = True

    def cancelled(self):
        return self.cancelled_

    def __lt__(self, other):
        return (self.when, self.seq) < (other.when, other.seq)


class DTask(asyncio.Task):
    _counter = 0

    def __init__(self, coro, *, loop, name=None, context=None):
        self._idx = loop._next_task_idx()  # before super(): _register_task hashes
        super().__init__(coro, loop=loop, name=name, context=context)

    def __hash__(self):
        return self._idx

    def __eq__(self, other):
        return self is other


class DFuture(asyncio.Future):
    def __init__(self, *, loop):
        self._idx = loop._next_task_idx()
        super().__init__(loop=loop)

    def __hash__(self):
        return self._idx

    def __eq__(self, other):
        return self is other


def _is_control_flow(exc: BaseException) -> bool:
    if isinstance(exc, asyncio.CancelledError):
        return False
    if not isinstance(exc, Exception):
        return True
    return type(exc).__name__ in ("NotDeterministic",)


class DetLoop(asyncio.AbstractEventLoop):
    def __init__(self, choices: Optional[list] = None, max_steps: int = 20000, offset: int = 0):
        self._ready: list = []
        self._timers: list = []
        self._now = 0.0
        self._seq = 0
        self._tidx = 0
        self._tasks: list = []
        self._choices = list(choices) if choices is not None else []
        self._choice_pos = 0
        # the symbolic choices apply to choice points number offset, offset+1, ... (a choice point
        # is a moment with more than one ready callback); earlier and later ones are FIFO
        self._offset = offset
        self._points_seen = 0
        self.choice_log: list = []  # (n_ready, picked)
        self._steps = 0
        self._max_steps = max_steps
        self._closed = False
        self.unhandled: list = []  # contexts passed to call_exception_handler
        self._prev = None

    # ---- identity / misc API used by asyncio internals
    def _next_task_idx(self):
        self._tidx += 1
        return self._tidx

    def get_debug(self):
        return False

    def is_running(self):
        return True

    def is_closed(self):
        return self._closed

    def time(self):
        return self._now

    def call_exception_handler(self, context):
        self.unhandled.append(context)

    def default_exception_handler(self, context):
        self.unhandled.append(context)

    def _timer_handle_cancelled(self, handle):
        pass

    # ---- scheduling
    def call_soon(self, callback, *args, context=None):
        h = _Handle(callback, args, context or contextvars.copy_context(), self)
        self._ready.append(h)
        return h

    call_soon_threadsafe = call_soon

    def call_at(self, when, callback, *args, context=None):
        self._seq += 1
        h = _Handle(callback, args, context or contextvars.copy_context(), self, when=when, seq=self._seq)
        heapq.heappush(self._timers, h)
        return h

    def call_later(self, delay, callback, *args, context=None):
        return self.call_at(self._now + delay, callback, *args, context=context)

    def create_future(self):
        return DFuture(loop=self)

    def create_task(self, coro, *, name=None, context=None):
        t = DTask(coro, loop=self, name=name, context=context)
        self._tasks.append(t)
        return t

    # ---- running
    def __enter__(self):
        self._prev = events._get_running_loop()
        events._set_running_loop(self)
        return self

    def __exit__(self, *exc):
        try:
            self.shutdown()
        finally:
            events._set_running_loop(self._prev)
        return False

    def _pick(self) -> _Handle:
        n = len(self._ready)
        if n > 1 and self._choice_pos < len(self._choices):
            if self._choice_pos == 0 and self._points_seen < self._offset:
                self._points_seen += 1
                return self._ready.pop(0)
            c = self._choices[self._choice_pos]
            self._choice_pos += 1
            for i in range(n):
                if c == i:
                    self.choice_log.append((n, i))
                    return self._ready.pop(i)
            raise Prune()
        return self._ready.pop(0)

    def _check_tasks(self):
        # surface CrossHair control-flow exceptions captured by Task.__step
        for t in self._tasks:
            if t.done() and not t.cancelled():
                exc = t._exception if hasattr(t, "_exception") else None
                if exc is not None and _is_control_flow(exc):
                    t.exception()  # mark retrieved
                    raise exc

    def step(self) -> bool:
        """Run one ready callback. Returns False when nothing is ready."""
        while self._ready:
            h = self._pick()
            if h.cancelled_:
                continue
            self._steps += 1
            if self._steps > self._max_steps:
                raise Livelock(f"more than {self._max_steps} callbacks")
            h.ctx.run(h.cb, *h.args)
            self._tasks = [t for t in self._tasks if not self._reap(t)]
            return True
        return False

    def _reap(self, t) -> bool:
        if not t.done():
            return False
        if not t.cancelled():
            exc = t._exception
            if exc is not None and _is_control_flow(exc):
                t.exception()
                raise exc
        return True

    def advance_clock(self) -> bool:
        while self._timers:
            h = heapq.heappop(self._timers)
            if h.cancelled_:
                continue
            self._now = max(self._now, h.when)
            self._ready.append(h)
            return True
        return False

    def run_until_quiescent(self, timers: bool = False):
        while True:
            while self.step():
                pass
            if not (timers and self.advance_clock()):
                return

    def run_until_complete(self, awaitable, timers: bool = True):
        fut = awaitable
        if asyncio.iscoroutine(awaitable):
            fut = self.create_task(awaitable)
            self._root = fut
        while not fut.done():
            if self.step():
                continue
            if timers and self.advance_clock():
                continue
            raise Deadlock("nothing ready while the awaited future is pending")
        return fut.result()

    def pending_tasks(self):
        return [t for t in self._tasks if not t.done()]

    def shutdown(self):
        """Cancel and drain every pending task (no frame survives the path)."""
        self._choices = []
        self._max_steps = 10**9
        for _ in range(50):
            pend = [t for t in self._tasks if not t.done()]
            if not pend and not self._ready:
                break
            for t in pend:
                t.cancel()
            try:
                while self.step():
                    pass
            except (Exception, asyncio.CancelledError):
                pass
        for t in self._tasks:
            if t.done() and not t.cancelled():
                t.exception()
        self._tasks = []
        self._ready = []
        self._timers = []
        self._closed = True

    def close(self):
        self._closed = True


def run(coro_fn: Callable[..., Any], *args, choices=None, max_steps: int = 20000, **kw):
    """Run `await coro_fn(loop, *args)` on a fresh DetLoop; always shuts it down."""
    loop = DetLoop(choices=choices, max_steps=max_steps)
    with loop:
        return loop.run_until_complete(coro_fn(loop, *args, **kw))
