#!/bin/bash
# usage: lib/seed_eval.sh <seed-dir> <PROP> [extra ./check args...]
# Applies <seed-dir>/patch.diff to a scratch worktree of /repo, confirms the demonstration
# (fails with the change, passes without), runs the stable tests, then runs the property's check
# against the changed tree (PYTHONPATH shadowing) with all outputs redirected to a scratch dir.
set -u
SD=$(realpath "$1"); PROP=$2; shift 2
ID=$(basename "$SD")
WT=/tmp/eval_$ID
OUT=/tmp/eval_out_$ID
rm -rf "$OUT"; mkdir -p "$OUT"
git -C /repo worktree remove --force "$WT" 2>/dev/null
git -C /repo worktree add -q "$WT" HEAD || exit 2
git -C "$WT" apply "$SD/patch.diff" || { echo "PATCH DOES NOT APPLY"; git -C /repo worktree remove --force "$WT"; exit 2; }
DEMO=$(ls "$SD"/demo.py "$SD"/test_demo.py 2>/dev/null | head -1)
run_demo() { ( cd "$1" && if [[ "$DEMO" == *test_demo.py ]]; then PYTHONPATH="$1" timeout 900 /venv/bin/python -m pytest -q -p no:cacheprovider "$DEMO" >/dev/null 2>&1; else PYTHONPATH="$1" timeout 900 /venv/bin/python "$DEMO" >/dev/null 2>&1; fi; echo $? ); }
echo "demo with change   : exit $(run_demo "$WT") (expected non-zero)"
echo "demo without change: exit $(run_demo /repo) (expected 0)"
if [ "${SKIP_STABLE:-0}" != 1 ]; then /tmp/seedtools/run_stable.sh "$WT" | tail -3; fi
cd /verif
VERIF_OUT="$OUT" PYTHONPATH="$WT" ./check "$PROP" --tier "${TIER:-quick}" "$@" > "$OUT/check.log" 2>&1
echo "check exit: $?"
grep -E "^VIOLATION|counterexample=|^OK|^INCONCLUSIVE|KNOWN" "$OUT/check.log" | head -12
git -C /repo worktree remove --force "$WT"
