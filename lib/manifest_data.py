HOOK_COMMITS: list = []

CHECKS = {
    "C01": {
        "text": "Bounded symbolic check of the real ScatterStep and GatherStep on a deterministic event loop: scatter emits exactly elements <tag>.<i> (i<n, n symbolic up to 12/24) and the size token; gather emits exactly one list per key in numeric index order for ANY distinct symbolic indexes (0..99 / 0..999, so >=10 is inside), any position of the size token or none, one-at-a-time or batch arrival, either termination order, 1-3 interleaved keys, depth 1-2; nested scatter/gather pipelines return the original nested list under solver-chosen interleavings (first K ready-queue choices).",
        "note": "StubDatabase and DetLoop replace sqlite and the selector loop; at most 3 (quick) / 4 (thorough) element tokens per gather harness, so a counting bug needing >=5 arrivals is outside; key prefixes concrete; interleavings differ only in the first K choice points.",
        "technique": "symbolic execution of the real step coroutines (CrossHair + z3) on a deterministic asyncio loop with solver-chosen arrival positions and interleavings; native replay",
    },
    "C02": {
        "text": "Bounded symbolic check of the real CombinatorStep with dot-product and cartesian-product combinators (flat, 3-port, and nested with a broadcast port exactly as the CWL translator builds them): the arrival order (a solver-chosen merge of the per-port FIFO streams including the termination tokens) and every token's last tag component are solver variables. Emitted rows equal an exact reference (one row per tag present on every deep port, broadcast of the shallower token of the same parent only, full cross product within a parent tag with composite tags), are never emitted twice, are order-invariant against the canonical port-by-port order, and every emitted token's recorded provenance is exactly the set of combined inputs.",
        "note": "StubDatabase/DetLoop; <=3 tokens per port, <=3 ports, symbolic last tag component from 0..2/0..3 and 8..11 (tags are dict keys in the combinators, so symbolic tags are realised value by value), concrete parent prefixes incl. '0.1' vs '0.10'; duplicate tags on one port and cartesian combinators with inner combinators (latent AttributeError, never built by the translator) are outside.",
        "technique": "symbolic execution of the real combinator step (CrossHair + z3) on a deterministic loop with solver-chosen arrival merges and tags; exact reference + order-invariance oracle; native replay",
    },
    "C04": {
        "text": "Bounded interleaving exploration through the solver at executor level: six small workflow graphs assembled from the real step classes (transformer chain, scatter/gather, dot-product join of two scattered inputs, conditional with skip port, two independent branches with two outputs, scatter->ScheduleStep->ExecuteStep->gather on the real DefaultScheduler with a slot-limited stub connector) are run by the real StreamFlowExecutor on a deterministic loop; the first K scheduling choices (K=2-3 quick, 3-5 thorough), input values, which unit fails and the job completion order are solver variables. run() must finish (deadlock = violation), return the expected outputs when no fault fired and raise otherwise; afterwards every step is terminated with a terminal status, every output port ends with a TerminationToken and no task is pending; after a job failure the other (long-running) jobs must be cancelled by the engine.",
        "note": "Each explored path is one schedule; schedules differing only after the K-th choice point are not distinguished; <=1 fault; loops are covered at step level (C06); stub database/connector/failure manager (recover re-raises); no file system.",
        "technique": "symbolic execution of the real executor and steps (CrossHair + z3) on a deterministic loop with solver-chosen interleavings, faults and job completion orders; native replay",
    },
    "C05": {
        "text": "Same graphs and solver-chosen schedules/job-completion orders as C04 without faults: for every explored interleaving the executor returns exactly the value the harness computes from the symbolic inputs and every workflow output port carries each tag exactly once, so the result cannot depend on the interleaving within the bound.",
        "note": "As C04 (bounded interleavings, <=3 list elements).",
        "technique": "symbolic execution of the real executor and steps (CrossHair + z3) with solver-chosen interleavings; reference result computed from the symbolic inputs; native replay",
    },
    "C06": {
        "text": "Bounded symbolic check of the real loop steps: CWLLoopOutputLast/AllStep fed with the causal merge of iteration values and iteration-termination markers (iteration count 0..3 with a fully symbolic arrival permutation, 10-15 iterations with a symbolic transposition, symbolic marker position, two interleaved instances '0.1'/'0.10' with solver-chosen merge) emit exactly one output per instance with tag = prefix and the last value / all values in numeric iteration order, None for zero iterations, and do not terminate before the producers do; the real LoopCombinatorStep retags the k-th product of an instance <prefix>.k and does not terminate while an instance is still iterating; LoopTerminationCombinator emits one IterationTerminationToken per completed instance.",
        "note": "Step-level lemmas; histories restricted to causal ones w.r.t. the translator's wiring (every TerminationToken after all values and markers). The assembled loop sub-graph under an executor is not part of this check (see C04 family). Instance prefixes concrete.",
        "technique": "symbolic execution of the real loop steps (CrossHair + z3) on a deterministic loop with solver-chosen arrival permutations/merges; native replay",
    },
    "C07": {
        "text": "Same graphs and solver-chosen schedules as C04 without faults with a recording database stub: every non-termination token on any step output port is persisted; its recorded dependees are exactly the persisted tokens the emitting step consumed for it (transformer/conditional/combinator/schedule/execute: inputs of that tag incl. the job token; scatter: the list token; gather: size token + elements); provenance is recorded once per token; every dependee id is smaller than its depender id (acyclic, dependee-first). C01/C02/C06 assert the same rule at step level under symbolic arrival orders for gather, combinator and loop-output tokens.",
        "note": "Engine level only: the SQL layer (INSERT OR IGNORE, get_dependees) is behind sqlite3 and outside; recovery runs outside; bounded interleavings as C04.",
        "technique": "symbolic execution of the real executor and steps (CrossHair + z3) against a recording database stub; native replay",
    },
    "C10": {
        "text": "Bounded symbolic check of the real DefaultScheduler on stub connectors: from every pair (and selected triples) of designated job statuses reached through canonical prefixes, every sequence of 1-2 (thorough: up to 3) further operations chosen by the solver among schedule/RUNNING/COMPLETED/FAILED/CANCELLED/RECOVERY/ROLLBACK on any job, with all capacities, requirements and measured storage usages symbolic exact integers, keeps the summed requirement of FIREABLE/RUNNING jobs within the capacity of every location at every stacked level (or the job count within the slots), on 7 topologies (one location, two locations with 1- or 2-location targets, slot-only, stacked wrapper with bind mount and jobs on either level, two deployments as ordered targets).",
        "note": "Stub connectors/deployment manager/HardwareRequirement/get_storage_usages; Hardware() float zero defaults replaced by integer 0 (exact arithmetic; IEEE envelope in C14); callers' lifecycle predicate listed in the evidence; <=3 jobs; measured usage <= declared requirement; default policy only.",
        "technique": "symbolic execution of the real scheduler (CrossHair + z3) on a deterministic loop: canonical-prefix states x solver-chosen operation suffixes x symbolic quantities; native replay",
    },
    "C11": {
        "text": "Same histories as C10 with the accounting oracle: the scheduler's own ledger never shows negative cores/memory/storage, and after driving every allocated job to a terminal status (with solver-chosen duplicated and out-of-order notifications in the history) every location's reserved cores and memory are exactly 0 and its storage equals exactly the sum of the measured usages.",
        "note": "As C10.",
        "technique": "symbolic execution of the real scheduler (CrossHair + z3), ledger oracle after every operation and at drain; native replay",
    },
    "C12": {
        "text": "Same histories as C10 with the liveness oracle at every quiescent point: no schedule() request is pending while a declared target has enough locations whose free capacity (computed by the harness from the requirements it handed out, independent of the scheduler's ledger) covers it at every stacked level; after all other jobs are terminal every request that fits has been granted. retry_interval=None so a lost notify_all cannot be masked by polling; a deadlock of the loop is a violation.",
        "note": "As C10; bounded: a starvation that needs more than the bounded history to manifest is outside.",
        "technique": "symbolic execution of the real scheduler (CrossHair + z3), no-lost-wake-up oracle at quiescence; native replay",
    },
    "C13": {
        "text": "(a) The real MatchingBindingFilter built from a solver-owned rule structure (deployment, service, 0-2 port predicates, match strings) applied to solver-owned targets and job inputs returns, AS A LIST IN DECLARED ORDER, exactly the targets some rule admits, and raises exactly when none is; Target identity hashes are solver-chosen and the name `set` inside the filter module is bound to a model of CPython's hash-slot iteration order, so any dependence on hash order is exposed. (b) The real DefaultScheduler on two deployments declared as ordered targets (with and without the matching filter in front), symbolic capacities/requirements and solver-chosen operation suffixes, places every granted job on the first declared target admissible at grant time.",
        "note": "Small symbolic domains (3 deployments, 3 services, 2 ports, 4 strings incl. an int cast); (b) as C10, checks a wake-up grant only when it is the single grant of the operation. The defect found by this check (list(set(...)) losing the declared order) was repaired in /repo commit d21207b.",
        "technique": "symbolic execution of the real filter and scheduler (CrossHair + z3) with solver-owned rule structures, identity hashes and quantities; native replay",
    },
    "C14": {
        "text": "Hardware/Storage arithmetic checked by two engines. (1) CrossHair on the real classes over every storage-map shape with 0..3 (quick) / 0..4 (thorough) storages per Hardware over <=3 mount points (keys equal to, aliasing or crossing mount points), all amounts unbounded non-negative integers: a+b carries the per-mount sums and (a+b)-b restores a's amounts without touching the operands; normalized() is in normal form, idempotent, total-preserving; a.satisfies(b) is True exactly when cores, memory and every mount point of b are <= in a and never True when a lacks a mount point of b; | max-merges sizes. (2) smtx: the same source translated AST->SMT with amounts as unbounded Reals, every law proved unsat by z3 and cvc5, the encoding validated against the real functions on >=200 concrete inputs per run. (3) Three QF_FP lemmas (both solvers): an exact double sum round-trips; integer-valued doubles add/subtract exactly.",
        "note": "Fractional IEEE doubles are covered only by the envelope lemmas ((a+b)-b != a for 0.1/0.2 is inherent to float, not a finding). Default '/' volume's 0.0 replaced by 0 under CrossHair; repr stub on the error-message path of satisfies(); shapes up to renaming of mount points; a-b on b-only mounts and cores/memory of | are outside. smtx is a hand-written evaluator of a Python subset (differentially validated each run).",
        "technique": "symbolic execution of the real classes (CrossHair + z3) with unbounded symbolic amounts; AST->SMT translation of the same source discharged by z3 and cvc5; QF_FP lemmas; native replay",
        "engine": "crosshair+smtx",
    },
    "C20": {
        "text": "Bounded symbolic check of the real DirectedGraph/DirectedAcyclicGraph (and GraphMapper on top) against a ~20-line reference graph: the initial DAG is a symbolic adjacency on 4 (quick) / 5 (thorough) nodes, followed by enumerated short operation skeletons over add/remove_nodes(prune symbolic)/replace/promote_to_source with every adjacency bit and flag symbolic; after every operation successors and predecessors mirror each other and equal the reference, removed-node sets, replace and promote semantics match the statement.",
        "note": "Graphs of <=5 nodes (12-node graphs outside), skeletons <=2 (quick) / 3 (thorough) operations; edge cases the statement does not fix (absent nodes, self loops) excluded by precondition and listed in the evidence assumptions.",
        "technique": "symbolic execution of the real graph classes (CrossHair + z3) over symbolic adjacency matrices with a reference model; native replay",
    },
    "C21": {
        "text": "Bounded symbolic check of the real DefaultDataManager/_RemotePathMapper over every history of up to 3 operations (5 for selected relation histories) from register_path / invalidate_location / register_relation, with solver-chosen location, path (tree of depth <=3 plus root), data type and related pair, on 1-3 locations (same/different deployment, local, one wrapping another through a mount). After the last operation every (location, path) pair is queried: registration makes the path and all ancestor directories available on that location only; invalidation empties the path and everything registered beneath it there and changes no DataLocation of any other location; re-registration restores; relating two registrations makes each reported at the other's path; get_source_location returns a non-INVALID PRIMARY member of get_data_locations whenever one exists.",
        "note": "Checkpoint manager and connector lookup are stubbed; relation operands are the registry's current entries; link loops, never-seen paths and remove_location are outside; the model is one-sided for related copies on the same location. The defect found by this check (stale valid_paths after invalidating related paths) was repaired in /repo commit 997b4e0.",
        "technique": "symbolic execution of the real registry code (CrossHair + z3) over generator-enumerated op skeletons with solver-owned operands, one-sided reference model; native replay",
    },
    "C28": {
        "text": "The real WorkflowConfig constructor and get_binding_config run on a StreamFlow-file mapping whose shape is owned by the solver (number of bindings, each binding's path from alphabet indexes with depth 0-3, step/port kind, queried step path, wraps index of each deployment incl. cycles and self references, workdir presence): the targets returned for a step are exactly those of the step binding on the longest component-wise prefix path (port bindings ignored, local target when nothing matches); the workdir is the target's own, else the first along the wraps chain, else the default; the constructor raises WorkflowDefinitionException iff the wraps graph has a cycle.",
        "note": "Parsed mapping (JSON-schema validation not executed symbolically); component alphabet {a, ab}; quick: 1-3 bindings, 1-3 deployments (workdir), 1-4 deployments (cycles); thorough: up to 5; duplicate step bindings on one path accept either; dangling deployment names outside.",
        "technique": "symbolic execution of the real configuration code (CrossHair + z3) with a reference nearest-ancestor / wraps-chain model; native replay",
    },
    "C32": {
        "text": "Bounded symbolic check of remap_token_value/remap_path: the relative name is assembled from solver-owned indexes into an alphabet (plain, digits completing a percent escape, path separator, space, non-ASCII, ':', '%') with solver-owned length 1..3 (quick) / 1..4 (thorough), crossed with 10 directory pairs, plain path / file:// location / both / foreign scheme forms and File, Directory+listing, secondaryFiles, array, record, non-file shapes: remap there and back restores the value exactly and the intermediate value denotes the same relative files under the new directory; other schemes and non-file values are unchanged.",
        "note": "urllib quote/unquote run untraced on concrete text; canonical file:// URIs only; paths strictly below old_dir; the ':/'-in-plain-path quirk is outside. The defect found by this check (percent-decoding of plain paths, loss of URI encoding) was repaired in /repo commit a33247d.",
        "technique": "symbolic execution of the real remap code (CrossHair + z3) over solver-enumerated names by input class; round-trip + forward oracle; native replay",
    },
    "C03": {
        "text": "Bounded symbolic check of the real Port classes: ALL histories of 4-7 put/get/terminate operations by 1-3 consumers (operation codes are solver variables; blocked gets and late subscribers included) deliver to every consumer exactly the put sequence in order; FilterTokenPort delivers exactly the admitted tokens (symbolic values and threshold) plus termination; InterWorkflowPort forwards the completing token (and RECOVERED termination) to the boundary port exactly when the symbolic boundary tag set is complete, adding a rule before/in the middle of/after the puts commutes, and self-bound rules never duplicate a local delivery.",
        "note": "DetLoop replaces the selector loop; histories longer than the bound, >3 consumers, duplicate tags in boundary rules or puts are outside; for tokens put after a rule became complete only the commutation clause is asserted.",
        "technique": "symbolic execution of the real port code (CrossHair + z3) with solver-owned operation histories; native replay",
    },
    "C33": {
        "text": "Bounded symbolic check: compare_tags equals the numeric (depth, components) order, is antisymmetric and transitive, sorting with it is numeric sorting, get_tag picks the deepest tag of a prefix chain and job names split back, for ALL tag components 0..99 (quick) / 0..999 (thorough) at depths 1..3 — the solver owns the values, so digit-length boundaries (9/10, 99/100) are covered without sampling.",
        "note": "CrossHair's model of str()/int()/split on z3 strings; sys.intern stubbed to identity for pathlib; step-name components from a fixed alphabet; components >= 1000 and depth > 3 (4 for get_tag) are outside the claim.",
        "technique": "symbolic execution of the real functions (CrossHair + z3), exhaustive path tree within the stated bound, native replay of counterexamples",
    },
}

NOT_APPLICABLE = {
    "C08": "round trip goes through json + sqlite3 (C) and ~40 load/save pairs whose only inputs are concrete graph shapes; symbolic values are realised at the boundary, leaving plain concrete replays — not solver-decided",
    "C09": "cache coherence is implemented by cachebox (compiled Rust @cached) over aiosqlite (thread-backed sqlite3); neither can be executed symbolically nor run on the deterministic loop",
    "C15": "about directories existing on real locations and uuid4 name uniqueness (probabilistic); only OS side effects, nothing for a solver to quantify over",
    "C16": "equality of whole recovered runs needs the full engine with the sqlite-backed WorkflowBuilder, local connector subprocesses and the file system; fault plans could only be enumerated as concrete runs (kernels are covered by C17/C18/C03)",
    "C19": "same whole-engine dependency as C16 plus id-ordered lock acquisition across real recovery executors; no kernel carries the property",
    "C22": "byte-exact transfer through tar/cp subprocesses and the file system; nothing symbolic survives the process boundary",
    "C24": "every operation's result comes from a real shell and file system; only the quoting of path arguments would be decidable, which is a different, weaker statement",
    "C27": "the mechanism under test is cachebox.TTLCache + @cached (compiled Rust, TTL on the real clock) around a real-time polling loop; it cannot run on the virtual clock or be seen by the solver",
    "C29": "differential against cwltool over whole CWL runs (node, subprocesses, ruamel/schema-salad); not encodable",
    "C30": "the oracle is cwltool's argv; a hand-written CWL binding model would be a second implementation, not the reference — false-alarm risk without a way to replay against cwltool under the solver",
    "C31": "the analysis is a 6000-line ANTLR ATN interpreter plus re on the expression text (regex on symbolic str is inconclusive in CrossHair) and the oracle is a JavaScript evaluation",
    "C34": "whole CWL run + archive creation (zip, hashing, file system); not encodable",
}
# properties planned but not yet built are listed as not applicable *for now* with that reason
PENDING = ["C01","C02","C03","C04","C05","C06","C07","C10","C11","C12","C13","C14","C17","C18","C20","C21","C23","C25","C26","C28","C32"]
for _p in PENDING:
    if _p not in CHECKS:
        NOT_APPLICABLE[_p] = "check not built yet in this round (planned, see DESIGN.md §3); not claimed until its harness is committed"
