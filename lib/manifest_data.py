HOOK_COMMITS: list = []

CHECKS = {
    "C01": {
        "text": "Bounded symbolic check of the real ScatterStep and GatherStep on a deterministic event loop: scatter emits exactly elements <tag>.<i> (i<n, n symbolic up to 12/24) and the size token; gather emits exactly one list per key in numeric index order for ANY distinct symbolic indexes (0..99 / 0..999, so >=10 is inside), any position of the size token or none, one-at-a-time or batch arrival, either termination order, 1-3 interleaved keys, depth 1-2; nested scatter/gather pipelines return the original nested list under solver-chosen interleavings (first K ready-queue choices).",
        "note": "StubDatabase and DetLoop replace sqlite and the selector loop; at most 3 (quick) / 4 (thorough) element tokens per gather harness, so a counting bug needing >=5 arrivals is outside; key prefixes concrete; interleavings differ only in the first K choice points.",
        "technique": "symbolic execution of the real step coroutines (CrossHair + z3) on a deterministic asyncio loop with solver-chosen arrival positions and interleavings; native replay",
    },
    "C03": {
        "text": "Bounded symbolic check of the real Port classes: ALL histories of 4-7 put/get/terminate operations by 1-3 consumers (operation codes are solver variables; blocked gets and late subscribers included) deliver to every consumer exactly the put sequence in order; FilterTokenPort delivers exactly the admitted tokens (symbolic values and threshold) plus termination; InterWorkflowPort forwards the completing token (and RECOVERED termination) to the boundary port exactly when the symbolic boundary tag set is complete, adding a rule before/in the middle of/after the puts commutes, and self-bound rules never duplicate a local delivery.",
        "note": "DetLoop replaces the selector loop; histories longer than the bound, >3 consumers, duplicate tags in boundary rules or puts are outside; for tokens put after a rule became complete only the commutation clause is asserted.",
        "technique": "symbolic execution of the real port code (CrossHair + z3) with solver-owned operation histories; native replay",
    },
    "C33": {
        "text": "Bounded symbolic check: compare_tags equals the numeric (depth, components) order, is antisymmetric and transitive, sorting with it is numeric sorting, get_tag picks the deepest tag of a prefix chain and job names split back, for ALL tag components 0..99 (quick) / 0..999 (thorough) at depths 1..3 — the solver owns the values, so digit-length boundaries (9/10, 99/100) are covered without sampling.",
        "note": "CrossHair's model of str()/int()/split on z3 strings; sys.intern stubbed to identity for pathlib; step-name components from a fixed alphabet; components >= 1000 and depth > 3 (4 for get_tag) are outside the claim.",
        "technique": "symbolic execution of the real functions (CrossHair + z3), exhaustive path tree within the stated bound, native replay of counterexamples",
    },
}

NOT_APPLICABLE = {
    "C08": "round trip goes through json + sqlite3 (C) and ~40 load/save pairs whose only inputs are concrete graph shapes; symbolic values are realised at the boundary, leaving plain concrete replays — not solver-decided",
    "C09": "cache coherence is implemented by cachebox (compiled Rust @cached) over aiosqlite (thread-backed sqlite3); neither can be executed symbolically nor run on the deterministic loop",
    "C15": "about directories existing on real locations and uuid4 name uniqueness (probabilistic); only OS side effects, nothing for a solver to quantify over",
    "C16": "equality of whole recovered runs needs the full engine with the sqlite-backed WorkflowBuilder, local connector subprocesses and the file system; fault plans could only be enumerated as concrete runs (kernels are covered by C17/C18/C03)",
    "C19": "same whole-engine dependency as C16 plus id-ordered lock acquisition across real recovery executors; no kernel carries the property",
    "C22": "byte-exact transfer through tar/cp subprocesses and the file system; nothing symbolic survives the process boundary",
    "C24": "every operation's result comes from a real shell and file system; only the quoting of path arguments would be decidable, which is a different, weaker statement",
    "C27": "the mechanism under test is cachebox.TTLCache + @cached (compiled Rust, TTL on the real clock) around a real-time polling loop; it cannot run on the virtual clock or be seen by the solver",
    "C29": "differential against cwltool over whole CWL runs (node, subprocesses, ruamel/schema-salad); not encodable",
    "C30": "the oracle is cwltool's argv; a hand-written CWL binding model would be a second implementation, not the reference — false-alarm risk without a way to replay against cwltool under the solver",
    "C31": "the analysis is a 6000-line ANTLR ATN interpreter plus re on the expression text (regex on symbolic str is inconclusive in CrossHair) and the oracle is a JavaScript evaluation",
    "C34": "whole CWL run + archive creation (zip, hashing, file system); not encodable",
}
# properties planned but not yet built are listed as not applicable *for now* with that reason
PENDING = ["C01","C02","C03","C04","C05","C06","C07","C10","C11","C12","C13","C14","C17","C18","C20","C21","C23","C25","C26","C28","C32"]
for _p in PENDING:
    if _p not in CHECKS:
        NOT_APPLICABLE[_p] = "check not built yet in this round (planned, see DESIGN.md §3); not claimed until its harness is committed"
