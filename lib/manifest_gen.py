"""Regenerates MANIFEST.json from lib/manifest_data.py (single source of truth)."""
import json, os, sys
ROOT = os.path.dirname(os.path.dirname(os.path.abspath(__file__)))
sys.path.insert(0, ROOT)
from lib.manifest_data import CHECKS, NOT_APPLICABLE, HOOK_COMMITS

def main():
    checks = []
    for pid, c in sorted(CHECKS.items()):
        checks.append({
            "property_id": pid,
            "quick_cmd": f"./check {pid} --tier quick",
            "thorough_cmd": f"./check {pid} --tier thorough",
            "evidence_file": f"/verif/evidence/{pid}.json",
            "replay_cmd_template": "/verif/.venv/bin/python {path}",
            "engine": c.get("engine", "crosshair"),
            "level_claimed": {"category": c.get("category", "other"), "text": c["text"], "design_ref": c.get("design_ref", f"DESIGN.md §3 {pid}")},
            "level_note": c["note"],
            "technique": c["technique"],
        })
    m = {
        "version": 1,
        "setup_cmd": "./setup.sh",
        "hooks": {
            "guard": "STREAMFLOW_VERIF",
            "enable": "checks export STREAMFLOW_VERIF=1 for every harness process; /repo is imported from its working tree (no build step)",
            "baseline_off_cmd": "cd /repo && env -u STREAMFLOW_VERIF /venv/bin/python -m pytest -ra -q -p no:cacheprovider --timeout=900 --continue-on-collection-errors",
            "source_commits": HOOK_COMMITS,
            "add_only": True,
        },
        "engines": [
            {"name": "crosshair", "path": "lib/xh_worker.py", "serves_properties": sorted(CHECKS), "kind_free_text": "CrossHair 0.0.110 symbolic execution of the real Python code with z3 (per-path), driven through its API; DetLoop (lib/detloop.py) runs asyncio code deterministically with solver-chosen interleavings"},
            {"name": "smtx", "path": "lib/smtx.py", "serves_properties": [p for p, c in CHECKS.items() if "smtx" in c.get("engine", "")], "kind_free_text": "AST->SMT-LIB translation of loop-free numeric kernels, discharged with z3 and cvc5"},
        ],
        "checks": checks,
        "notes": "Every check decides its property by solver-based symbolic execution of /repo's current source (see DESIGN.md). Exit 3 = inconclusive/harness error (never reported as success).",
        "not_applicable": [{"property_id": p, "reason": r} for p, r in sorted(NOT_APPLICABLE.items())],
    }
    with open(os.path.join(ROOT, "MANIFEST.json"), "w") as f:
        json.dump(m, f, indent=1)
    print("wrote MANIFEST.json with", len(checks), "checks,", len(m["not_applicable"]), "n/a")

if __name__ == "__main__":
    main()
