"""Environment stubs shared by the harnesses (all listed in evidence assumptions).

StubDatabase: in-memory, hands out increasing ids in call order, records
add_token / add_provenance / update_* calls. sqlite is NOT under test here.
"""

from __future__ import annotations

import logging
from typing import Any

logging.disable(logging.CRITICAL)


class StubDatabase:
    def __init__(self, context=None):
        self.context = context
        self._next = 0
        self.tokens: dict = {}  # id -> dict(tag,type,value,port,recoverable)
        self.provenance: list = []  # (tuple(inputs), token) in call order
        self.ports: dict = {}
        self.steps: dict = {}
        self.workflows: dict = {}
        self.step_updates: list = []
        self.workflow_updates: list = []
        self.deps: list = []
        self.executions: dict = {}
        self.log: list = []  # ("token", id) | ("prov", inputs, id)

    def _id(self) -> int:
        self._next += 1
        return self._next

    async def add_token(self, tag, type, value, port=None, recoverable=False) -> int:
        i = self._id()
        self.tokens[i] = {"tag": tag, "type": type, "value": value, "port": port, "recoverable": recoverable}
        self.log.append(("token", i))
        return i

    async def add_provenance(self, inputs, token) -> None:
        self.provenance.append((tuple(inputs), token))
        self.log.append(("prov", tuple(inputs), token))

    async def add_port(self, name, workflow_id, type, params) -> int:
        i = self._id()
        self.ports[i] = {"name": name, "workflow": workflow_id, "type": type, "params": params}
        return i

    async def add_step(self, name, workflow_id, status, type, params) -> int:
        i = self._id()
        self.steps[i] = {"name": name, "workflow": workflow_id, "status": status, "type": type, "params": params}
        return i

    async def add_workflow(self, name, params, status, type) -> int:
        i = self._id()
        self.workflows[i] = {"name": name, "params": params, "status": status, "type": type}
        return i

    async def add_dependency(self, step, port, type, name) -> None:
        self.deps.append((step, port, type, name))

    async def add_execution(self, step_id, job_token_id, cmd) -> int:
        i = self._id()
        self.executions[i] = {"step": step_id, "job_token": job_token_id, "cmd": cmd}
        return i

    async def update_execution(self, execution_id, updates) -> int:
        self.executions.setdefault(execution_id, {}).update(updates)
        return execution_id

    async def add_deployment(self, *a, **k) -> int:
        return self._id()

    async def add_target(self, *a, **k) -> int:
        return self._id()

    async def add_filter(self, *a, **k) -> int:
        return self._id()

    async def update_step(self, step_id, updates) -> int:
        self.step_updates.append((step_id, dict(updates)))
        if step_id in self.steps:
            self.steps[step_id].update(updates)
        return step_id

    async def update_workflow(self, workflow_id, updates) -> int:
        self.workflow_updates.append((workflow_id, dict(updates)))
        return workflow_id

    async def update_port(self, port_id, updates) -> int:
        return port_id

    async def get_token(self, token_id):
        t = self.tokens[token_id]
        return {"id": token_id, **t}

    async def get_dependees(self, token_id):
        out = []
        for ins, tok in self.provenance:
            if tok == token_id:
                for i in ins:
                    out.append({"dependee": i, "depender": tok})
        return out

    async def get_dependers(self, token_id):
        out = []
        for ins, tok in self.provenance:
            if token_id in ins:
                out.append({"dependee": token_id, "depender": tok})
        return out

    async def close(self) -> None:
        return None


class NullFailureManager:
    """FailureManager.notify/recover as DummyFailureManager does (re-raise)."""

    def __init__(self, context=None):
        self.context = context
        self.notified: list = []

    async def close(self):
        pass

    async def is_recovering(self, job_name):
        return False

    async def notify(self, output_port, output_token, job_token=None):
        self.notified.append((output_port, output_token, job_token))

    async def recover(self, job, step, exception):
        raise exception


class StubContext:
    """Bare StreamFlowContext replacement: attributes are set by the harness."""

    def __init__(self):
        self.config: dict = {}
        self.database = StubDatabase(self)
        self.failure_manager = NullFailureManager(self)
        self.scheduler = None
        self.deployment_manager = None
        self.data_manager = None
        self.checkpoint_manager = None

    async def close(self):
        pass


def new_workflow(ctx=None, name="wf"):
    from streamflow.core.workflow import Workflow

    ctx = ctx or StubContext()
    return Workflow(context=ctx, config={}, name=name)


_NAME_COUNTER = [0]


def fresh_name(prefix="n") -> str:
    _NAME_COUNTER[0] += 1
    return f"{prefix}{_NAME_COUNTER[0]}"
