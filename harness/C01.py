"""C01 — scatter then gather returns the original list in its original order.

Real code executed symbolically: ScatterStep.run/_scatter, GatherStep.run/_gather,
compare_tags, Port.put/get, BaseStep._persist_token/terminate.
"""

from __future__ import annotations

import itertools

from lib.runner import Spec, mk_source

LEVEL = "other"
EXPLANATION = (
    "Three lemmas over the real ScatterStep/GatherStep run on a deterministic event loop: "
    "L1 scatter emits exactly the index set {0..n-1} and the size token; L2 gather restores numeric order for ANY "
    "set of distinct symbolic indexes, any position of the size token (or none) and any termination order; "
    "L3 nested scatter/gather pipelines under solver-chosen task interleavings."
)
ASSUMPTIONS = [
    "StubDatabase (in-memory ids in call order) replaces sqlite; DetLoop replaces the asyncio selector loop",
    "tokens reach the gather step one at a time (harness puts a token, lets the step run to quiescence, puts the next) or all at once (batch) — both modes are explored",
    "gather key prefixes are concrete ('0', '0.1', '0.10'); the index components are symbolic",
    "element values are symbolic ints (scalar elements); list/object elements do not change the step code paths (tokens are opaque to scatter/gather)",
]

T_SC = ("streamflow.workflow.step.ScatterStep.run", "streamflow.workflow.step.ScatterStep._scatter", "streamflow.workflow.step.BaseStep._persist_token", "streamflow.workflow.step.BaseStep.terminate", "streamflow.core.workflow.Port.put", "streamflow.core.workflow.Port.get")
T_GA = ("streamflow.workflow.step.GatherStep.run", "streamflow.workflow.step.GatherStep._gather", "streamflow.core.utils.compare_tags", "streamflow.workflow.step.BaseStep._persist_token", "streamflow.workflow.step.BaseStep.terminate", "streamflow.core.workflow.Port.put", "streamflow.core.workflow.Port.get")


# ---------------------------------------------------------------- helpers


def _mk(choices=None):
    from lib.detloop import DetLoop
    from lib.stubs import StubContext, new_workflow

    ctx = StubContext()
    wf = new_workflow(ctx)
    loop = DetLoop(choices=choices)
    return ctx, wf, loop


def _tag(prefix: str, comps) -> str:
    out = prefix
    for c in comps:
        out = out + "." + str(c)
    return out


def _lt(a, b) -> bool:
    for x, y in zip(a, b):
        if x != y:
            return x < y
    return False


def _is_term(t) -> bool:
    from streamflow.workflow.token import TerminationToken

    return isinstance(t, TerminationToken)


# ---------------------------------------------------------------- L1 scatter


def prop_scatter(n, vals, tagc, check_prov=True) -> bool:
    """ScatterStep on a ListToken of the first n of vals, parent tag '0.<tagc...>'."""
    import asyncio

    from streamflow.core.workflow import Status, Token
    from streamflow.workflow.step import ScatterStep
    from streamflow.workflow.token import ListToken, TerminationToken

    ctx, wf, loop = _mk()
    with loop:
        inp = wf.create_port(name="in")
        outp = wf.create_port(name="out")
        step = wf.create_step(cls=ScatterStep, name="/sc")
        step.add_input_port("x", inp)
        step.add_output_port("x", outp)
        ptag = _tag("0", tagc)
        elems = [Token(value=vals[i], tag=ptag) for i in range(n)]
        lt = ListToken(value=elems, tag=ptag)
        loop.run_until_complete(lt.save(ctx.database, port_id=None))
        inp.put(lt)
        inp.put(TerminationToken(Status.COMPLETED))
        loop.run_until_complete(step.run())
        out = outp.token_list
        size = step.get_size_port().token_list
        if len(out) != n + 1 or not _is_term(out[-1]):
            return False
        for i in range(n):
            t = out[i]
            if t.tag != ptag + "." + str(i) or t.value != vals[i]:
                return False
            if check_prov and (t.persistent_id is None or (lt.persistent_id,) not in [p[0] for p in ctx.database.provenance if p[1] == t.persistent_id]):
                return False
        if len(size) != 2 or not _is_term(size[1]):
            return False
        if size[0].tag != ptag or size[0].value != n:
            return False
        # an empty scatter leaves its element port empty => the step reports SKIPPED
        want = Status.COMPLETED if n > 0 else Status.SKIPPED
        if not step.terminated or step.status != want:
            return False
        return True


# ---------------------------------------------------------------- L2 gather


def prop_gather(keys, idxs, vals, size_pos, batch, term_first, depth=1, check_prov=False, size_before_all=None) -> bool:
    """GatherStep over k element tokens.

    keys[j]   concrete key prefix of element j (e.g. "0", "0.1")
    idxs[j]   tuple of `depth` symbolic index components of element j
    vals[j]   symbolic value
    size_pos  dict key -> position p: the size token of that key is put just
              before element #p (p == k: after all elements; p == k+1: never)
    batch     put everything, then let the step run (instead of one at a time)
    term_first  which port receives its TerminationToken first (True: elements)
    """
    from streamflow.core.workflow import Status, Token
    from streamflow.workflow.step import GatherStep
    from streamflow.workflow.token import ListToken, TerminationToken

    k = len(keys)
    ctx, wf, loop = _mk()
    db = ctx.database
    with loop:
        inp = wf.create_port(name="in")
        sizep = wf.create_port(name="size")
        outp = wf.create_port(name="out")
        step = wf.create_step(cls=GatherStep, name="/ga", size_port=sizep, depth=depth)
        step.add_input_port("x", inp)
        step.add_output_port("x", outp)
        loop.run_until_complete(wf.save(db))
        run_task = loop.create_task(step.run())
        toks, size_toks = [], {}
        count = {}
        for j in range(k):
            count[keys[j]] = count.get(keys[j], 0) + 1
        for key in size_pos:
            count.setdefault(key, 0)

        def settle():
            if not batch:
                loop.run_until_quiescent()

        def put_sizes(pos):
            for key, p in size_pos.items():
                if p == pos:
                    st = Token(value=count[key], tag=key, recoverable=True)
                    loop.run_until_complete(st.save(db, port_id=sizep.persistent_id))
                    size_toks[key] = st
                    sizep.put(st)
                    settle()

        loop.run_until_quiescent()
        for j in range(k):
            put_sizes(j)
            t = Token(value=vals[j], tag=_tag(keys[j], idxs[j]))
            loop.run_until_complete(t.save(db, port_id=inp.persistent_id))
            toks.append(t)
            inp.put(t)
            settle()
        put_sizes(k)
        if term_first:
            inp.put(TerminationToken(Status.COMPLETED))
            settle()
            sizep.put(TerminationToken(Status.COMPLETED))
        else:
            sizep.put(TerminationToken(Status.COMPLETED))
            settle()
            inp.put(TerminationToken(Status.COMPLETED))
        loop.run_until_complete(run_task)  # Deadlock/Livelock => exception => violation
        out = outp.token_list
        if not out or not _is_term(out[-1]):
            return False
        lists = out[:-1]
        for t in lists:
            if _is_term(t) or not isinstance(t, ListToken):
                return False
        # expected keys: every key with >=1 element, plus keys whose size token (value 0) was delivered
        expected = {}
        for j in range(k):
            expected.setdefault(keys[j], []).append(j)
        for key, p in size_pos.items():
            if p <= k:
                expected.setdefault(key, [])
        if len(lists) != len(expected):
            return False
        for key, members in expected.items():
            found = [t for t in lists if t.tag == key]
            if len(found) != 1:
                return False
            lt = found[0]
            if len(lt.value) != len(members):
                return False
            # same token objects, each once
            ids = [id(x) for x in lt.value]
            for j in members:
                if ids.count(id(toks[j])) != 1:
                    return False
            # numeric order of the harness-known index tuples
            pos = {id(toks[j]): j for j in members}
            seq = [pos[i] for i in ids]
            for a, b in zip(seq, seq[1:]):
                if not _lt(idxs[a], idxs[b]):
                    return False
            if check_prov:
                if lt.persistent_id is None:
                    return False
                rec = [p[0] for p in db.provenance if p[1] == lt.persistent_id]
                if len(rec) != 1:
                    return False
                st = step.size_map.get(key)
                if st is None or st.persistent_id is None:
                    return False
                want = sorted([st.persistent_id] + [toks[j].persistent_id for j in members])
                if sorted(rec[0]) != want:
                    return False
                if any(i >= lt.persistent_id for i in rec[0]):
                    return False
        # nothing emitted => the step reports SKIPPED (empty output port)
        want = Status.COMPLETED if expected else Status.SKIPPED
        if not step.terminated or step.status != want:
            return False
        if loop.pending_tasks():
            return False
        return True


# ---------------------------------------------------------------- L3 nested pipeline


def prop_nested(n, ms, vals, choices, chained=True) -> bool:
    """scatter(outer) -> scatter(inner) -> gather(inner) -> gather(outer) on a list of lists.

    n outer length (<= len(ms)); ms[i] inner length of row i; vals flat pool.
    chained=False uses ONE GatherStep(depth=2) with a product size token instead
    (flat_crossproduct wiring) and expects the flattened list.
    """
    from lib.detloop import Prune
    from streamflow.core.workflow import Status, Token
    from streamflow.workflow.step import GatherStep, ScatterStep
    from streamflow.workflow.token import ListToken, TerminationToken

    ctx, wf, loop = _mk(choices)
    db = ctx.database
    W = 2  # max inner width used to index vals
    try:
        with loop:
            p_in = wf.create_port(name="in")
            p_rows = wf.create_port(name="rows")
            p_el = wf.create_port(name="el")
            p_g1 = wf.create_port(name="g1")
            p_out = wf.create_port(name="out")
            sa = wf.create_step(cls=ScatterStep, name="/sa")
            sa.add_input_port("x", p_in)
            sa.add_output_port("x", p_rows)
            sb = wf.create_step(cls=ScatterStep, name="/sb")
            sb.add_input_port("x", p_rows)
            sb.add_output_port("x", p_el)
            if chained:
                g1 = wf.create_step(cls=GatherStep, name="/g1", size_port=sb.get_size_port(), depth=1)
                g1.add_input_port("x", p_el)
                g1.add_output_port("x", p_g1)
                g2 = wf.create_step(cls=GatherStep, name="/g2", size_port=sa.get_size_port(), depth=1)
                g2.add_input_port("x", p_g1)
                g2.add_output_port("x", p_out)
                steps = [sa, sb, g1, g2]
            else:
                p_size = wf.create_port(name="psize")
                g = wf.create_step(cls=GatherStep, name="/g", size_port=p_size, depth=2)
                g.add_input_port("x", p_el)
                g.add_output_port("x", p_out)
                steps = [sa, sb, g]
            rows = []
            for i in range(n):
                rows.append(ListToken(value=[Token(value=vals[i * W + j]) for j in range(ms[i])]))
            top = ListToken(value=rows, tag="0")
            tasks = [loop.create_task(s.run()) for s in steps]
            p_in.put(top)
            p_in.put(TerminationToken(Status.COMPLETED))
            if not chained:
                total = 0
                for i in range(n):
                    total = total + ms[i]
                p_size.put(Token(value=total, tag="0"))
                p_size.put(TerminationToken(Status.COMPLETED))
            for t in tasks:
                loop.run_until_complete(t)
            out = p_out.token_list
            if len(out) != 2 or not _is_term(out[1]):
                return False
            res = out[0]
            if res.tag != "0" or not isinstance(res, ListToken):
                return False
            if chained:
                if len(res.value) != n:
                    return False
                for i in range(n):
                    row = res.value[i]
                    if not isinstance(row, ListToken) or len(row.value) != ms[i]:
                        return False
                    for j in range(ms[i]):
                        if row.value[j].value != vals[i * W + j]:
                            return False
            else:
                flat = []
                for i in range(n):
                    for j in range(ms[i]):
                        flat.append(vals[i * W + j])
                if [t.value for t in res.value] != flat:
                    return False
            for s in steps:
                if not s.terminated:
                    return False
            return True
    except Prune:
        return True


# ---------------------------------------------------------------- obligations

IMPORTS = "from harness.C01 import *"


def _distinct(groups):
    """pre lines: within each group of index-tuple names, tuples pairwise distinct."""
    pre = []
    for g in groups:
        for a, b in itertools.combinations(g, 2):
            pre.append("(" + " or ".join(f"{x} != {y}" for x, y in zip(a, b)) + ")")
    return pre


def gather_specs(name, keys, hi, partition=False, **kw):
    """partition=True: one obligation per concrete (batch, term_first)."""
    if not partition:
        return [gather_spec(name, keys, hi, **kw)]
    return [
        gather_spec(f"{name}_b{int(b)}t{int(t)}", keys, hi, fix_bools=(b, t), **kw)
        for b in (False, True)
        for t in (False, True)
    ]


def gather_spec(name, keys, hi, depth=1, prov=False, cond=300, sym_sizes=None, fix_bools=None, group="L2 gather restores numeric order for any index set / size position"):
    """keys: tuple of concrete key prefixes per element. All size positions symbolic
    for keys in sym_sizes (default: all distinct keys)."""
    k = len(keys)
    ukeys = list(dict.fromkeys(keys))
    if sym_sizes is None:
        sym_sizes = ukeys
    idx_names = [[f"i{j}_{d}" for d in range(depth)] for j in range(k)]
    val_names = [f"v{j}" for j in range(k)]
    pos_names = [f"p{n}" for n in range(len(sym_sizes))]
    params = [f"{x}: int" for g in idx_names for x in g] + [f"{v}: int" for v in val_names] + [f"{p}: int" for p in pos_names]
    if fix_bools is None:
        params += ["batch: bool", "term_first: bool"]
        bexpr = "batch, term_first"
    else:
        bexpr = f"{fix_bools[0]}, {fix_bools[1]}"
    pre = [f"0 <= {x} <= {hi}" for g in idx_names for x in g]
    groups = {}
    for j, key in enumerate(keys):
        groups.setdefault(key, []).append(idx_names[j])
    pre += _distinct(groups.values())
    pre += [f"0 <= {p} <= {k + 1}" for p in pos_names]
    idxs = "[" + ", ".join("(" + ", ".join(g) + ",)" for g in idx_names) + "]"
    sp = "{" + ", ".join(f"{key!r}: {p}" for key, p in zip(sym_sizes, pos_names)) + "}"
    call = f"prop_gather({tuple(keys)!r}, {idxs}, [{', '.join(val_names)}], {sp}, {bexpr}, depth={depth}, check_prov={prov})"
    return Spec(
        name=name,
        group=group,
        source=mk_source(IMPORTS, ", ".join(params), pre, call),
        cond=cond,
        path=60,
        bound=f"{k} element tokens with keys {tuple(keys)}, gather depth {depth}; index components symbolic distinct in 0..{hi}; size-token position of each key symbolic in 0..{k + 1} (k+1 = never: forced gather); one-at-a-time vs batch arrival and termination order " + ("symbolic" if fix_bools is None else f"fixed to batch={fix_bools[0]}, elements-terminate-first={fix_bools[1]} (partition)"),
        symbolic=f"{k * depth} index components, {k} values, {len(pos_names)} size positions, 2 bools",
        targets=T_GA,
    )


def specs(tier: str):
    out = []
    quick = tier == "quick"
    hi = 99 if quick else 999
    # ---- L1 scatter
    N = 12 if quick else 24
    vs = [f"v{i}" for i in range(N)]
    for td in (0, 1, 2):
        tc = [f"t{i}" for i in range(td)]
        out.append(
            Spec(
                name=f"scatter_len_le{N}_tagdepth{td + 1}",
                group="L1 scatter emits elements <tag>.<i> in order and the size token",
                source=mk_source(
                    IMPORTS,
                    ", ".join([f"n: int"] + [f"{v}: int" for v in vs] + [f"{t}: int" for t in tc]),
                    [f"0 <= n <= {N}"] + [f"0 <= {t} <= {hi}" for t in tc],
                    f"prop_scatter(n, [{', '.join(vs)}], ({''.join(t + ', ' for t in tc)}))",
                ),
                cond=300,
                bound=f"list length n symbolic 0..{N}, element values unconstrained ints, parent tag depth {td + 1} with components 0..{hi}",
                symbolic=f"n, {N} values, {td} tag components",
                targets=T_SC,
            )
        )
    # ---- L2 gather
    out += gather_specs("gather_k0_empty", (), hi, sym_sizes=["0"], cond=120)
    out += gather_specs("gather_k1", ("0",), hi, cond=120)
    out += gather_specs("gather_k2", ("0", "0"), hi, cond=300)
    out += gather_specs("gather_k3", ("0", "0", "0"), 99, cond=900, partition=True)
    out += gather_specs("gather_k2_deepkey", ("0.10", "0.10"), hi, cond=300)
    out += gather_specs("gather_2keys_k3", ("0.1", "0.10", "0.1"), 99, cond=1200, partition=True)
    out += gather_specs("gather_k2_depth2", ("0", "0"), 99, depth=2, cond=600, partition=True)
    if not quick:
        out += gather_specs("gather_k3_hi999", ("0", "0", "0"), 999, cond=3000, partition=True)
        out += gather_specs("gather_k4", ("0", "0", "0", "0"), 99, cond=3000, partition=True)
        out += gather_specs("gather_2keys_k4", ("0.1", "0.10", "0.10", "0.1"), 99, cond=3000, partition=True)
        out += gather_specs("gather_k3_depth2", ("0", "0", "0"), 99, depth=2, cond=3000, partition=True)
        out += gather_specs("gather_3keys_k3", ("0.1", "0.2", "0.10"), 99, cond=3000, partition=True)
    # ---- L3 nested (partitioned on the outer length n)
    K = 3 if quick else 4
    cs = [f"c{i}" for i in range(K)]
    for chained in (True, False):
        for n, m0 in ((0, None), (1, None), (2, 0), (2, 1), (2, 2)):
            m0p = ["m0: int"] if m0 is None else []
            m0pre = ["0 <= m0 <= 2"] if m0 is None else []
            m0e = "m0" if m0 is None else str(m0)
            out.append(
                Spec(
                    name=f"nested_{'chained' if chained else 'depth2'}_n{n}" + ("" if m0 is None else f"m{m0}") + f"_K{K}",
                    group="L3 nested scatter/gather pipeline under solver-chosen interleavings",
                    source=mk_source(
                        IMPORTS,
                        ", ".join(m0p + ["m1: int"] + [f"v{i}: int" for i in range(4)] + [f"{c}: int" for c in cs]),
                        m0pre + ["0 <= m1 <= 2"] + [f"0 <= {c} <= 5" for c in cs],
                        f"prop_nested({n}, [{m0e}, m1], [v0, v1, v2, v3], [{', '.join(cs)}], chained={chained})",
                    ),
                    cond=900 if quick else 3000,
                    path=60,
                    bound=f"outer length {n} (partition)" + ("" if m0 is None else f", first inner length {m0} (partition)") + f", inner lengths 0..2, first {K} scheduling choices symbolic (each picks among up to 6 ready callbacks), FIFO afterwards",
                    symbolic=f"inner lengths, 4 values, {K} interleaving choices",
                    targets=T_SC + T_GA,
                )
            )
    return out
