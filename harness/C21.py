"""C21 — the data-location registry answers consistently with its history.

Real code executed symbolically: DefaultDataManager.register_path /
register_relation / invalidate_location / get_data_locations /
get_source_location and, underneath, _RemotePathMapper.put / get /
invalidate_location (plus get_inner_path / StreamFlowPath for a location that
wraps another one through a mount).

A harness run is a *skeleton* (concrete sequence of op kinds, enumerated by the
generator) whose operands are solver variables:

    R  register_path(LOCS[l], PATHS[p], data_type=TYPES[t])      -> DataLocation #k
    I  invalidate_location(LOCS[l], PATHS[p])
    X  register_relation(DL[a], DL[b])        (DL = results of the earlier R ops)

After the last op the registry is queried on EVERY (location, path) pair and
compared with a tiny one-sided reference model (see `_Model`). Skeletons of
every length 1..N are enumerated, so "after the last op" is "after every op".
"""

from __future__ import annotations

import itertools

from lib.runner import Spec, mk_source

LEVEL = "other"
EXPLANATION = (
    "Bounded symbolic checking of the real DefaultDataManager/_RemotePathMapper: the generator enumerates op skeletons over "
    "{register, invalidate, relate}; which location, which path, which data type and which earlier DataLocation every op uses are "
    "solver variables (indexes into concrete tables, so each path of the solver carries concrete strings). After the last op the registry is "
    "queried on every (location, path) pair and compared with a one-sided reference model: (i) register(L,p) makes p and every ancestor "
    "directory available on L (also re-registration after an invalidation), (ii) invalidate(L,p) leaves p and everything beneath it "
    "unavailable on L and changes no DataLocation of another location, (never) nothing is reported on a location where nothing was "
    "registered or related, (v) relating two valid registrations makes each reported at the other's path, (iv) get_source_location "
    "returns only a non-INVALID PRIMARY member of get_data_locations (and returns one whenever one exists)."
)
ASSUMPTIONS = [
    "StubContext with two stubs that the exercised code paths touch: checkpoint_manager.register(data_location) is a no-op (DummyCheckpointManager behaviour) and deployment_manager.get_connector(name) returns an opaque token (RemoteStreamFlowPath.__init__ only stores it); no scheduler is consulted by the code under test",
    "get_source_location runs on lib.detloop.DetLoop (its awaits are DataLocation.available events, all set by register_path)",
    "a location is identified by (deployment, name) as the registry does; tables: quick 2 locations, thorough 3 locations (same deployment/different name, different deployment/same name, one local) plus a variant where one location wraps another through the mount /a/b -> /b",
    "paths are normalised absolute posix paths from a concrete tree of depth <= 3 over the alphabet {a, b} (plus the root '/'); relpath is left to its default (the path itself)",
    "data types of registrations are PRIMARY or SYMBOLIC_LINK (registering a path as INVALID is outside the claim)",
    "invalidate_location is only applied to a path for which some registration at or beneath it was made before on any location (the registry raises KeyError for a path it has never seen; the statement is silent about that case) — other operand choices end the run vacuously",
    "register_relation operands are DataLocation objects previously returned by register_path (as streamflow.cwl.utils and transfer_data use it); clause (v) is only demanded when both objects are not INVALID and both registrations are currently available according to the model",
    "one-sided model: after invalidate(L,p) availability of other paths of L outside the subtree of p is only demanded while L has not been involved in any relation (relations share DataLocation objects between nodes, so the code's relation semantics may invalidate related copies on the same location; the statement does not forbid that); after a relate op every earlier 'must be unavailable' expectation is dropped (a related copy makes the path reported again)",
    "clause (iv) is read as: the result is a non-INVALID PRIMARY element of get_data_locations(path), and it is None only when no such element exists; the preference order (same deployment, local, any) is not part of the claim",
    "_RemotePathMapper.remove_location is not exercised (no caller in /repo, not part of the statement)",
]

T_ALL = (
    "streamflow.data.manager.DefaultDataManager.register_path",
    "streamflow.data.manager.DefaultDataManager.register_relation",
    "streamflow.data.manager.DefaultDataManager.invalidate_location",
    "streamflow.data.manager.DefaultDataManager.get_data_locations",
    "streamflow.data.manager.DefaultDataManager.get_source_location",
    "streamflow.data.manager._RemotePathMapper.put",
    "streamflow.data.manager._RemotePathMapper.get",
    "streamflow.data.manager._RemotePathMapper.invalidate_location",
    "streamflow.data.remotepath.get_inner_path",
)

# ---------------------------------------------------------------- tables

# path tables (index = solver variable). "/" first: the root directory is an
# ancestor of everything (tests/test_data_manager.py invalidates from the root).
PATH_TABLES = {
    "P5": ["/", "/a", "/a/b", "/a/b/a", "/b"],
    "P7": ["/", "/a", "/a/b", "/a/b/a", "/a/a", "/b", "/b/a"],
}
# every query sweep looks at all of these (superset of both tables)
ALL_PATHS = ["/", "/a", "/a/b", "/a/b/a", "/a/a", "/b", "/b/a"]

MOUNT_SRC, MOUNT_DST = "/a/b", "/b"


def _locations(variant: str):
    """Concrete location tables. Each entry: ExecutionLocation."""
    from streamflow.core.deployment import ExecutionLocation

    if variant == "S":  # same deployment, two names
        return [ExecutionLocation("n0", "d0"), ExecutionLocation("n1", "d0")]
    if variant == "D":  # two deployments, same name; the second one is local
        return [ExecutionLocation("n0", "d0"), ExecutionLocation("n0", "d1", local=True)]
    if variant == "T":  # three locations
        return [
            ExecutionLocation("n0", "d0"),
            ExecutionLocation("n1", "d0"),
            ExecutionLocation("n0", "d1", local=True),
        ]
    if variant == "W":  # location 2 wraps location 0 through a mount
        l0 = ExecutionLocation("n0", "d0")
        return [
            l0,
            ExecutionLocation("n0", "d1"),
            ExecutionLocation("n0", "d2", mounts={MOUNT_SRC: MOUNT_DST}, wraps=l0),
        ]
    if variant == "1":
        return [ExecutionLocation("n0", "d0")]
    raise ValueError(variant)


N_LOCS = {"S": 2, "D": 2, "T": 3, "W": 3, "1": 1}


class _NullCheckpointManager:
    def register(self, data_location):
        return None


class _TokenDeploymentManager:
    """get_connector returns an opaque token: RemoteStreamFlowPath only stores it."""

    def get_connector(self, deployment_name):
        return ("connector", deployment_name)


def _new_manager():
    from lib.stubs import StubContext
    from streamflow.data.manager import DefaultDataManager

    ctx = StubContext()
    ctx.checkpoint_manager = _NullCheckpointManager()
    ctx.deployment_manager = _TokenDeploymentManager()
    dm = DefaultDataManager(ctx)
    ctx.data_manager = dm
    return dm


# ---------------------------------------------------------------- reference model


def _prefixes(p: str) -> list:
    out = ["/"]
    cur = ""
    for comp in p.split("/"):
        if comp:
            cur = cur + "/" + comp
            out.append(cur)
    return out


def _under(q: str, p: str) -> bool:
    """q is p or lies beneath p."""
    return q == p or p == "/" or q.startswith(p + "/")


def _inner(variant: str, li: int, p: str):
    """(location index, path) of the wrapped copy that register_path adds, or None."""
    if variant == "W" and li == 2 and _under(p, MOUNT_SRC):
        return 0, MOUNT_DST + p[len(MOUNT_SRC):]
    return None


class _Model:
    """One-sided expectations about (location index, path) pairs.

    must[(l, q)] = True   q has to be reported available on l
    must[(l, q)] = False  q has to be reported unavailable on l
    absent               no expectation
    """

    def __init__(self, variant):
        self.variant = variant
        self.must = {}
        self.registered = set()  # (l, q) ever covered by a registration (q = path or ancestor)
        self.nodes = set()  # paths the registry has seen (a node exists)
        self.related = set()  # locations involved in some relation

    def _reg(self, l, p):
        for q in _prefixes(p):
            self.must[(l, q)] = True
            self.registered.add((l, q))
            self.nodes.add(q)

    def register(self, l, p):
        self._reg(l, p)
        inner = _inner(self.variant, l, p)
        if inner is not None:
            self._reg(inner[0], inner[1])
            self.related.add(l)
            self.related.add(inner[0])

    def invalidate(self, l, p):
        for key in list(self.must):
            kl, q = key
            if kl != l:
                continue
            if _under(q, p):
                self.must[key] = False
            elif l in self.related:
                del self.must[key]
        for q in ALL_PATHS:
            if _under(q, p):
                self.must[(l, q)] = False

    def relate(self, la, lb):
        self.related.add(la)
        self.related.add(lb)
        for key in list(self.must):
            if self.must[key] is False:
                del self.must[key]


# ---------------------------------------------------------------- the property


def _key(loc):
    return (loc.deployment, loc.name)


def _snapshot(dm, locs, skip):
    """Raw registry content (INVALID entries included) for every location but `skip`."""
    out = []
    for li, loc in enumerate(locs):
        if li == skip:
            continue
        for q in ALL_PATHS:
            for d in dm.path_mapper.get(q, None, loc.deployment, loc.name):
                out.append((li, q, id(d), d.path, d.data_type, d.deployment, d.name))
    return out


def _run(variant, table, skel, args, explain=False):
    """Returns None if every clause holds, else a short clause label."""
    from lib.detloop import DetLoop
    from streamflow.core.data import DataType

    TYPES = [DataType.PRIMARY, DataType.SYMBOLIC_LINK]
    paths = PATH_TABLES[table]
    locs = _locations(variant)
    dm = _new_manager()
    model = _Model(variant)
    dls = []  # results of R ops: (DataLocation, loc index, path)
    pos = 0
    last = len(skel) - 1
    before = None
    last_inval = None
    last_rel = None
    for k, op in enumerate(skel):
        if op == "R":
            li, pi, ti = args[pos], args[pos + 1], args[pos + 2]
            pos += 3
            loc, p, t = locs[li], paths[pi], TYPES[ti]
            li, pi = int(li), int(pi)
            dl = dm.register_path(loc, p, data_type=t)
            dls.append((dl, li, p))
            model.register(li, p)
        elif op == "I":
            li, pi = args[pos], args[pos + 1]
            pos += 2
            loc, p = locs[li], paths[pi]
            li = int(li)
            if p not in model.nodes:
                return None  # outside the claim (never-seen path): vacuous
            if k == last:
                before = _snapshot(dm, locs, li)
                last_inval = li
            dm.invalidate_location(loc, p)
            model.invalidate(li, p)
        elif op == "X":
            ai, bi = args[pos], args[pos + 1]
            pos += 2
            a, la, pa = dls[ai]
            b, lb, pb = dls[bi]
            demand = (
                a.data_type != DataType.INVALID
                and b.data_type != DataType.INVALID
                and model.must.get((la, pa)) is True
                and model.must.get((lb, pb)) is True
            )
            dm.register_relation(a, b)
            model.relate(la, lb)
            if k == last and demand:
                last_rel = (la, pa, lb, pb)
        else:
            raise ValueError(op)

    def fail(label):
        if explain and _stale_valid_paths(dm):
            return label + "[stale-valid_paths]"
        return label

    # ---- (i)/(iii), (ii) and the negative direction, on every pair
    for li, loc in enumerate(locs):
        for q in ALL_PATHS:
            got = dm.get_data_locations(q, loc.deployment, loc.name)
            for d in got:
                if d.data_type == DataType.INVALID or _key(d) != _key(loc):
                    return fail("query:invalid-or-foreign-entry")
            want = model.must.get((li, q))
            if want is True:
                if not any(d.path == q for d in got):
                    return fail("i:registered-path-or-ancestor-unavailable")
            elif want is False:
                if got:
                    return fail("ii:available-after-invalidate")
            if (li, q) not in model.registered and li not in model.related:
                if got:
                    return fail("never:reported-without-registration")
    # ---- (ii) frame: the last invalidation changed nothing on other locations
    if last_inval is not None:
        if _snapshot(dm, locs, last_inval) != before:
            return fail("ii:other-location-changed")
    # ---- (v) relation: each side is reported at the other's path
    if last_rel is not None:
        la, pa, lb, pb = last_rel
        if not any(d.path == pb for d in dm.get_data_locations(pa, locs[lb].deployment, locs[lb].name)):
            return fail("v:related-copy-not-reported")
        if not any(d.path == pa for d in dm.get_data_locations(pb, locs[la].deployment, locs[la].name)):
            return fail("v:related-copy-not-reported")
    # ---- (iv) source location
    deployments = []
    for loc in locs:
        if loc.deployment not in deployments:
            deployments.append(loc.deployment)
    verdict = []

    async def sources():
        for q in ALL_PATHS:
            valid = dm.get_data_locations(q)
            for dep in deployments:
                r = await dm.get_source_location(q, dep)
                if r is None:
                    if any(d.data_type == DataType.PRIMARY for d in valid):
                        verdict.append("iv:no-source-although-primary-exists")
                        return
                else:
                    if not any(d is r for d in valid):
                        verdict.append("iv:source-not-in-data-locations")
                        return
                    if r.data_type != DataType.PRIMARY:
                        verdict.append("iv:source-not-primary")
                        return

    loop = DetLoop()
    with loop:
        loop.run_until_complete(sources())
    if verdict:
        return fail(verdict[0])
    return None


def _stale_valid_paths(dm) -> bool:
    """Diagnosis only (finding key, never part of the oracle): some node lists a
    path as valid for a location although every DataLocation with that path there is INVALID."""
    from streamflow.core.data import DataType

    def walk(node):
        for dep, names in node.valid_paths.items():
            for name, vp in names.items():
                for p in vp:
                    ds = [d for d in node.locations.get(dep, {}).get(name, []) if d.path == p]
                    if not any(d.data_type != DataType.INVALID for d in ds):
                        return True
        return any(walk(c) for c in node.children.values())

    return walk(dm.path_mapper._filesystem)


def prop_seq(variant, table, skel, args) -> bool:
    return _run(variant, table, skel, args) is None


def explain_seq(variant, table, skel, args):
    return _run(variant, table, skel, args, explain=True)


def _finding_key(call: str):
    """Clause label of a counterexample call `h(...)` (evaluated natively)."""
    import re

    m = re.search(r"prop_seq\((.*)\)\s*$", _finding_key.calls.get(call.split("(")[0], ""), re.S)
    return None


# ---------------------------------------------------------------- obligations

IMPORTS = "from harness.C21 import *"


def _arity(op):
    return {"R": 3, "I": 2, "X": 2}[op]


def _valid_skeleton(skel) -> bool:
    """First op registers; X needs at least one earlier R; no leading I/X."""
    if skel[0] != "R":
        return False
    return True


def _skeletons(max_len):
    out = []
    for n in range(1, max_len + 1):
        for sk in itertools.product("RIX", repeat=n):
            if _valid_skeleton(sk):
                out.append("".join(sk))
    return out


def _count(skel, nl, npth, fixed):
    """Number of operand combinations (= expected solver paths, roughly)."""
    total = 1
    nr = 0
    for k, op in enumerate(skel):
        if op == "R":
            c = nl * npth * 2
            nr += 1
        elif op == "I":
            c = nl * npth
        else:
            c = nr * nr
        total *= c
    for f in fixed:
        total //= f
    return total


def _mk_spec(variant, table, skel, fix=None, cond=900, group=None):
    """fix: dict var name -> concrete value (partition)."""
    fix = fix or {}
    nl = N_LOCS[variant]
    npth = len(PATH_TABLES[table])
    params, pre, argv = [], [], []
    nr = 0
    desc = []
    for k, op in enumerate(skel):
        if op == "R":
            names = [(f"l{k}", nl), (f"p{k}", npth), (f"t{k}", 2)]
            nr += 1
        elif op == "I":
            names = [(f"l{k}", nl), (f"p{k}", npth)]
        else:
            names = [(f"a{k}", nr), (f"b{k}", nr)]
        for v, hi in names:
            if v in fix:
                argv.append(str(fix[v]))
            elif hi == 1:
                argv.append("0")
            else:
                params.append(f"{v}: int")
                pre.append(f"0 <= {v} < {hi}")
                argv.append(v)
    if not params:  # keep one solver variable so the harness has a precondition
        params.append("z: int")
        pre.append("0 <= z < 1")
    call = f"prop_seq({variant!r}, {table!r}, {skel!r}, [{', '.join(argv)}])"
    fx = "".join(f"_{v}{fix[v]}" for v in sorted(fix))
    name = f"{variant}_{table}_{skel}{fx}"
    ops = {"R": "register", "I": "invalidate", "X": "relate"}
    bound = (
        f"skeleton {'-'.join(ops[o] for o in skel)}; location table {variant!r} ({nl} locations), path table {PATH_TABLES[table]}; "
        "every operand (location, path, data type PRIMARY/SYMBOLIC_LINK, related DataLocation pair) ranges over its whole table"
        + (f"; partition: {', '.join(f'{v}={fix[v]}' for v in sorted(fix))}" if fix else "")
        + f"; all {len(ALL_PATHS)} paths x {nl} locations queried after the last op"
    )
    return Spec(
        name=name,
        group=group or _group(skel),
        source=mk_source(IMPORTS, ", ".join(params), pre, call),
        cond=cond,
        path=60,
        bound=bound,
        symbolic=f"{len(params)} operand indexes",
        targets=T_ALL,
        finding_key=_make_key(variant, table, skel, [a for a in argv], [p.split(':')[0] for p in params]),
    )


def _group(skel):
    if "X" in skel:
        return "histories with relations"
    if "I" in skel:
        return "register / invalidate / re-register histories"
    return "registration makes the path and its ancestors available"


def _make_key(variant, table, skel, argv, pnames):
    def key(call: str):
        # call looks like h(l0, p0, ...) with concrete values, positional or keyword
        import ast

        try:
            node = ast.parse(call, mode="eval").body
            env = {}
            for name, a in zip(pnames, node.args):
                env[name] = ast.literal_eval(a)
            for kw in node.keywords:
                env[kw.arg] = ast.literal_eval(kw.value)
            vals = [int(a) if a.lstrip("-").isdigit() else env[a] for a in argv]
            return explain_seq(variant, table, skel, vals)
        except Exception as e:  # diagnosis must never break the run
            return "explain-failed:" + type(e).__name__

    return key


def _partition(variant, table, skel, limit):
    """Split on leading operands until every part has <= limit combinations."""
    nl = N_LOCS[variant]
    npth = len(PATH_TABLES[table])
    order = []  # (var, range) in skeleton order
    for k, op in enumerate(skel):
        if op == "R":
            order += [(f"p{k}", npth), (f"l{k}", nl), (f"t{k}", 2)]
        elif op == "I":
            order += [(f"p{k}", npth), (f"l{k}", nl)]
    total = _count(skel, nl, npth, [])
    chosen = []
    for v, r in order:
        if total <= limit:
            break
        if r > 1:
            chosen.append((v, r))
            total = -(-total // r)
    if not chosen:
        return [{}]
    out = []
    for combo in itertools.product(*[range(r) for _, r in chosen]):
        out.append({v: c for (v, _), c in zip(chosen, combo)})
    return out


def specs(tier: str):
    out = []
    quick = tier == "quick"
    if quick:
        plan = [
            # (variant, table, max_len, extra skeletons)
            ("S", "P5", 3),
            ("D", "P5", 3),
        ]
        limit = 3000
    else:
        plan = [
            ("T", "P7", 3),
            ("W", "P7", 3),
            ("S", "P5", 4),
            ("D", "P5", 4),
        ]
        limit = 3000
    seen = set()
    for variant, table, max_len in plan:
        for skel in _skeletons(max_len):
            if "X" in skel and skel.index("X") < 1:
                continue
            for fix in _partition(variant, table, skel, limit):
                s = _mk_spec(variant, table, skel, fix)
                if s.name not in seen:
                    seen.add(s.name)
                    out.append(s)
    return out
