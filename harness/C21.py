"""C21 — the data-location registry answers consistently with its history.

Real code executed symbolically: DefaultDataManager.register_path /
register_relation / invalidate_location / get_data_locations /
get_source_location and, underneath, _RemotePathMapper.put / get /
invalidate_location (plus get_inner_path / StreamFlowPath for a location that
wraps another one through a mount).

A harness run is a *skeleton* (concrete sequence of op kinds, enumerated by the
generator) whose operands are solver variables:

    R  register_path(LOCS[l], PATHS[p], data_type=TYPES[t])
    I  invalidate_location(LOCS[l], PATHS[p])
    X  register_relation(a, b)   a, b = the registry's current DataLocation of the
                                 (location, path) of two earlier R ops (any ordered pair)

After the last op the registry is queried on EVERY (location, path) pair and
compared with a tiny one-sided reference model (see `_Model`). Skeletons of
every length 1..N are enumerated, so "after the last op" is "after every op".
"""

from __future__ import annotations

import itertools

from lib.runner import Spec, mk_source

LEVEL = "other"
EXPLANATION = (
    "Bounded symbolic checking of the real DefaultDataManager/_RemotePathMapper: the generator enumerates op skeletons over "
    "{register, invalidate, relate}; which location, which path, which data type and which earlier DataLocation every op uses are "
    "solver variables (indexes into concrete tables, so each path of the solver carries concrete strings). After the last op the registry is "
    "queried on every (location, path) pair and compared with a one-sided reference model: (i) register(L,p) makes p and every ancestor "
    "directory available on L (also re-registration after an invalidation), (ii) invalidate(L,p) leaves p and everything beneath it "
    "unavailable on L and changes no DataLocation of another location, (never) nothing is reported on a location where nothing was "
    "registered or related, (v) relating two valid registrations makes each reported at the other's path, (iv) get_source_location "
    "returns only a non-INVALID PRIMARY member of get_data_locations (and returns one whenever one exists)."
)
ASSUMPTIONS = [
    "StubContext with two stubs that the exercised code paths touch: checkpoint_manager.register(data_location) is a no-op (DummyCheckpointManager behaviour) and deployment_manager.get_connector(name) returns an opaque token (RemoteStreamFlowPath.__init__ only stores it); no scheduler is consulted by the code under test",
    "history obligations: get_source_location is driven directly with coroutine.send (no event loop): its only awaits are DataLocation.available events, all set by register_path; a suspension would be reported as a violation",
    "wait_inflight obligations: an in-flight copy is a registration whose `available` event was cleared again (the state transfer_data creates for a destination before the copy completes); one get_source_location call runs as a task of lib.detloop.DetLoop while symbolic events invalidate copies / complete transfers; no new registration happens while it waits; the result is judged at the moment the call returns",
    "a location is identified by (deployment, name) as the registry does; location tables: 'D' two deployments with the same location name (the second one local), 'S' one deployment with two location names, '1' a single location, 'T' (thorough) three locations combining S and D, 'W' (thorough) three deployments where location 2 wraps location 0 through the mount /a/b -> /b (register_path then registers and relates the inner copy itself)",
    "paths are normalised absolute posix paths from a concrete tree of depth <= 3 over the alphabet {a, b} (plus the root '/'); relpath is left to its default (the path itself)",
    "data types of registrations are PRIMARY or SYMBOLIC_LINK (registering a path as INVALID is outside the claim)",
    "invalidate_location is only applied to a path for which some registration at or beneath it was made before on any location (the registry raises KeyError for a path it has never seen; the statement is silent about that case) — other operand choices end the run vacuously",
    "register_relation operands are designated by (location, path) of two earlier registrations and resolved to the DataLocation the registry currently reports for them (what a caller obtains from get_data_locations); if one of them is not currently reported the run ends vacuously; stale handles of invalidated registrations and duplicate DataLocation objects that register_path returns without storing them are outside the claim",
    "relating a directory to its own ancestor/descendant directory on the same location (a link loop) is outside the claim",
    "clause (v): right after relate(a, b) the registry reports, for a's path on b's location, an entry with b's path, and vice versa (this is the only effect of register_relation the statement refers to: 'related to such a registration')",
    "one-sided model: after invalidate(L,p) the registry must report nothing for p and for every path registered beneath p on L; availability of other paths of L outside the subtree of p is only demanded while L has not been involved in any relation (relations share DataLocation objects between nodes, so the code may invalidate related copies on the same location; the statement does not forbid that); register_relation links dst with every DataLocation stored at src's node, so every location that has src's path registered counts as involved; after a relate op every earlier 'must be unavailable' expectation is dropped (a related copy makes the path reported again); the negative direction is only asserted for locations never involved in a relation: a path never registered (nor an ancestor of a registered path) there is not reported",
    "clause (iv) is read as: the result is a non-INVALID PRIMARY element of get_data_locations(path), and it is None only when no such element exists; the preference order (same deployment, local, any) is not part of the claim",
    "_RemotePathMapper.remove_location is not exercised (no caller in /repo, not part of the statement)",
]

T_ALL = (
    "streamflow.data.manager.DefaultDataManager.register_path",
    "streamflow.data.manager.DefaultDataManager.register_relation",
    "streamflow.data.manager.DefaultDataManager.invalidate_location",
    "streamflow.data.manager.DefaultDataManager.get_data_locations",
    "streamflow.data.manager.DefaultDataManager.get_source_location",
    "streamflow.data.manager._RemotePathMapper.put",
    "streamflow.data.manager._RemotePathMapper.get",
    "streamflow.data.manager._RemotePathMapper.invalidate_location",
    "streamflow.data.remotepath.get_inner_path",
)

# ---------------------------------------------------------------- tables

# path tables (index = solver variable). "/" first: the root directory is an
# ancestor of everything (tests/test_data_manager.py invalidates from the root).
PATH_TABLES = {
    "P3": ["/", "/a", "/b"],
    "P4": ["/", "/a", "/a/b", "/b"],
    "P5": ["/", "/a", "/a/b", "/a/b/a", "/b"],
    "P7": ["/", "/a", "/a/b", "/a/b/a", "/a/a", "/b", "/b/a"],
}
MOUNT_SRC, MOUNT_DST = "/a/b", "/b"


def _query_paths(variant: str, table: str) -> list:
    """Paths looked at by every query sweep: the op table, closed under the mount for 'W'."""
    out = list(PATH_TABLES[table])
    if variant == "W":
        for p in PATH_TABLES[table]:
            if _under(p, MOUNT_SRC):
                q = MOUNT_DST + p[len(MOUNT_SRC):]
                if q not in out:
                    out.append(q)
    return out


def _locations(variant: str):
    """Concrete location tables. Each entry: ExecutionLocation."""
    from streamflow.core.deployment import ExecutionLocation

    if variant == "S":  # same deployment, two names
        return [ExecutionLocation("n0", "d0"), ExecutionLocation("n1", "d0")]
    if variant == "D":  # two deployments, same name; the second one is local
        return [ExecutionLocation("n0", "d0"), ExecutionLocation("n0", "d1", local=True)]
    if variant == "T":  # three locations
        return [
            ExecutionLocation("n0", "d0"),
            ExecutionLocation("n1", "d0"),
            ExecutionLocation("n0", "d1", local=True),
        ]
    if variant == "W":  # location 2 wraps location 0 through a mount
        l0 = ExecutionLocation("n0", "d0")
        return [
            l0,
            ExecutionLocation("n0", "d1"),
            ExecutionLocation("n0", "d2", mounts={MOUNT_SRC: MOUNT_DST}, wraps=l0),
        ]
    if variant == "1":
        return [ExecutionLocation("n0", "d0")]
    raise ValueError(variant)


N_LOCS = {"S": 2, "D": 2, "T": 3, "W": 3, "1": 1}


class _NullCheckpointManager:
    def register(self, data_location):
        return None


class _TokenDeploymentManager:
    """get_connector returns an opaque token: RemoteStreamFlowPath only stores it."""

    def get_connector(self, deployment_name):
        return ("connector", deployment_name)


def _new_manager():
    from lib.stubs import StubContext
    from streamflow.data.manager import DefaultDataManager

    ctx = StubContext()
    ctx.checkpoint_manager = _NullCheckpointManager()
    ctx.deployment_manager = _TokenDeploymentManager()
    dm = DefaultDataManager(ctx)
    ctx.data_manager = dm
    return dm


# ---------------------------------------------------------------- reference model


def _prefixes(p: str) -> list:
    out = ["/"]
    cur = ""
    for comp in p.split("/"):
        if comp:
            cur = cur + "/" + comp
            out.append(cur)
    return out


def _under(q: str, p: str) -> bool:
    """q is p or lies beneath p."""
    return q == p or p == "/" or q.startswith(p + "/")


def _inner(variant: str, li: int, p: str):
    """(location index, path) of the wrapped copy that register_path adds, or None."""
    if variant == "W" and li == 2 and _under(p, MOUNT_SRC):
        return 0, MOUNT_DST + p[len(MOUNT_SRC):]
    return None


class _Model:
    """One-sided expectations about (location index, path) pairs.

    must[(l, q)] = True   q has to be reported available on l
    must[(l, q)] = False  q has to be reported unavailable on l
    absent               no expectation
    """

    def __init__(self, variant):
        self.variant = variant
        self.must = {}
        self.registered = set()  # (l, q) ever covered by a registration (q = path or ancestor)
        self.nodes = set()  # paths the registry has seen (a node exists)
        self.related = set()  # locations involved in some relation

    def _reg(self, l, p):
        for q in _prefixes(p):
            self.must[(l, q)] = True
            self.registered.add((l, q))
            self.nodes.add(q)

    def register(self, l, p):
        self._reg(l, p)
        inner = _inner(self.variant, l, p)
        if inner is not None:  # register_path relates the wrapped copy itself
            self._reg(inner[0], inner[1])
            self.relate(l, p, inner[0], inner[1])

    def invalidate(self, l, p):
        for key in list(self.must):
            kl, q = key
            if kl != l:
                continue
            if _under(q, p):
                # p itself and every *registered* path beneath it
                if q == p or key in self.registered:
                    self.must[key] = False
                else:
                    del self.must[key]
            elif l in self.related:
                del self.must[key]
        self.must[(l, p)] = False

    def relate(self, la, pa, lb, pb):
        # register_relation links dst with EVERY DataLocation stored at src's node:
        # own registrations of pa on any location, or copies related earlier
        self.related.add(la)
        self.related.add(lb)
        for (l, q) in self.registered:
            if q == pa:
                self.related.add(l)
        for key in list(self.must):
            if self.must[key] is False:
                del self.must[key]


# ---------------------------------------------------------------- the property


def _key(loc):
    return (loc.deployment, loc.name)


def _current(dm, loc, p):
    """The registry's current entry for path p on loc (what a caller gets from a lookup)."""
    for d in dm.get_data_locations(p, loc.deployment, loc.name):
        if d.path == p:
            return d
    return None


def _snapshot(dm, locs, skip, qpaths):
    """Raw registry content (INVALID entries included) for every location but `skip`."""
    out = []
    for li, loc in enumerate(locs):
        if li == skip:
            continue
        for q in qpaths:
            for d in dm.path_mapper.get(q, None, loc.deployment, loc.name):
                out.append((li, q, id(d), d.path, d.data_type, d.deployment, d.name))
    return out


def _drive(coro):
    """Run a coroutine that must not suspend (every DataLocation.available event is set)."""
    try:
        coro.send(None)
    except StopIteration as e:
        return e.value
    coro.close()
    raise RuntimeError("get_source_location suspended: it waits on a DataLocation that is never made available")


def _pick(v, n):
    """Realise a solver integer in 0..n-1 as a plain int (one solver path per value)."""
    for i in range(n):
        if v == i:
            return i
    return None  # grouped obligations: the slot is wider than this history needs


def _run(variant, table, skel, args, explain=False):
    """Returns None if every clause holds, else a short clause label."""
    from streamflow.core.data import DataType

    TYPES = [DataType.PRIMARY, DataType.SYMBOLIC_LINK]
    paths = PATH_TABLES[table]  # operands
    qpaths = _query_paths(variant, table)  # queries
    locs = _locations(variant)
    dm = _new_manager()
    model = _Model(variant)
    dls = []  # designators of the R ops: (loc index, path)
    pos = 0
    last = len(skel) - 1
    before = None
    last_inval = None
    last_rel = None
    for k, op in enumerate(skel):
        if op == "R":
            li, pi, ti = _pick(args[pos], len(locs)), _pick(args[pos + 1], len(paths)), _pick(args[pos + 2], 2)
            pos += 3
            if li is None or pi is None or ti is None:
                return None
            loc, p, t = locs[li], paths[pi], TYPES[ti]
            dm.register_path(loc, p, data_type=t)
            dls.append((li, p))
            model.register(li, p)
        elif op == "I":
            li, pi = _pick(args[pos], len(locs)), _pick(args[pos + 1], len(paths))
            pos += 2
            if li is None or pi is None:
                return None
            loc, p = locs[li], paths[pi]
            if p not in model.nodes:
                return None  # outside the claim (never-seen path): vacuous
            if k == last:
                before = _snapshot(dm, locs, li, qpaths)
                last_inval = li
            dm.invalidate_location(loc, p)
            model.invalidate(li, p)
        elif op == "X":
            ai, bi = _pick(args[pos], len(dls)), _pick(args[pos + 1], len(dls))
            pos += 2
            if ai is None or bi is None:
                return None
            la, pa = dls[ai]
            lb, pb = dls[bi]
            if la == lb and pa != pb and (_under(pa, pb) or _under(pb, pa)):
                return None  # a directory related to its own ancestor on one location: outside the claim
            a = _current(dm, locs[la], pa)
            b = _current(dm, locs[lb], pb)
            if a is None or b is None:
                return None  # operand not currently registered: outside the claim
            dm.register_relation(a, b)
            model.relate(la, pa, lb, pb)
            if k == last:
                last_rel = (la, pa, lb, pb)
        else:
            raise ValueError(op)

    def fail(label):
        if explain and _stale_valid_paths(dm):
            return label + "[stale-valid_paths]"
        return label

    # ---- (i)/(iii), (ii) and the negative direction, on every pair
    for li, loc in enumerate(locs):
        for q in qpaths:
            got = dm.get_data_locations(q, loc.deployment, loc.name)
            for d in got:
                if d.data_type == DataType.INVALID or _key(d) != _key(loc):
                    return fail("query:invalid-or-foreign-entry")
            want = model.must.get((li, q))
            if want is True:
                if not any(d.path == q for d in got):
                    return fail("i:registered-path-or-ancestor-unavailable")
            elif want is False:
                if got:
                    return fail("ii:available-after-invalidate")
            if (li, q) not in model.registered and li not in model.related:
                if got:
                    return fail("never:reported-without-registration")
    # ---- (ii) frame: the last invalidation changed nothing on other locations
    if last_inval is not None:
        if _snapshot(dm, locs, last_inval, qpaths) != before:
            return fail("ii:other-location-changed")
    # ---- (v) relation: each side is reported at the other's path
    if last_rel is not None:
        la, pa, lb, pb = last_rel
        if not any(d.path == pb for d in dm.get_data_locations(pa, locs[lb].deployment, locs[lb].name)):
            return fail("v:related-copy-not-reported")
        if not any(d.path == pa for d in dm.get_data_locations(pb, locs[la].deployment, locs[la].name)):
            return fail("v:related-copy-not-reported")
    # ---- (iv) source location
    deployments = []
    for loc in locs:
        if loc.deployment not in deployments:
            deployments.append(loc.deployment)
    verdict = []

    async def sources():
        for q in qpaths:
            valid = dm.get_data_locations(q)
            for dep in deployments:
                r = await dm.get_source_location(q, dep)
                if r is None:
                    if any(d.data_type == DataType.PRIMARY for d in valid):
                        verdict.append("iv:no-source-although-primary-exists")
                        return
                else:
                    if not any(d is r for d in valid):
                        verdict.append("iv:source-not-in-data-locations")
                        return
                    if r.data_type != DataType.PRIMARY:
                        verdict.append("iv:source-not-primary")
                        return

    _drive(sources())
    if verdict:
        return fail(verdict[0])
    return None


def _stale_valid_paths(dm) -> bool:
    """Diagnosis only (finding key, never part of the oracle): some node lists a
    path as valid for a location although every DataLocation with that path there is INVALID."""
    from streamflow.core.data import DataType

    def walk(node):
        for dep, names in node.valid_paths.items():
            for name, vp in names.items():
                for p in vp:
                    ds = [d for d in node.locations.get(dep, {}).get(name, []) if d.path == p]
                    if not any(d.data_type != DataType.INVALID for d in ds):
                        return True
        return any(walk(c) for c in node.children.values())

    return walk(dm.path_mapper._filesystem)


def prop_seq(variant, table, skels, sel, args) -> bool:
    """skels[sel] is the history (sel is a solver variable when an obligation groups several short histories)."""
    k = _pick(sel, len(skels))
    if k is None:
        return True
    return _run(variant, table, skels[k], args) is None


def explain_seq(variant, table, skels, sel, args):
    return _run(variant, table, skels[sel], args, explain=True)


# ---------------------------------------------------------------- in-flight copies (get_source_location suspends)


def prop_wait(states, dst, events) -> bool:
    """Clause (iv) across the suspension point of get_source_location.

    Three locations (table 'T') may hold "/a": states[i] = 0 absent, 1 registered and available,
    2 registered PRIMARY but not yet available (a transfer to it is in flight: transfer_data registers
    the destination before the copy completes). get_source_location("/a", dst) is started on the
    deterministic loop; then each event either invalidates the copy on one location or completes one
    in-flight transfer (sets `available`), the loop running to quiescence after each. When the call
    returns, the result must be a currently reported, non-INVALID PRIMARY copy; it may be None only
    if no copy stayed valid throughout; it must return once every surviving copy is available."""
    from lib.detloop import DetLoop
    from streamflow.core.data import DataType

    locs = _locations("T")
    dm = _new_manager()
    p = "/a"
    flight = {}
    valid = []
    for i in range(3):
        st = _pick(states[i], 3)
        if st is None:
            return True
        if st == 0:
            continue
        dm.register_path(locs[i], p)
        valid.append(i)
        if st == 2:
            ds = [d for d in dm.get_data_locations(p, locs[i].deployment, locs[i].name) if d.path == p]
            if len(ds) != 1:
                return False
            ds[0].available.clear()
            flight[i] = ds[0]
    d = _pick(dst, 3)
    if d is None:
        return True
    dst_dep = ["d0", "d1", "dX"][d]

    def verdict(task):
        r = task.result()
        if r is None:
            return len(valid) == 0
        if r.data_type != DataType.PRIMARY or r.path != p:
            return False
        cur = dm.get_data_locations(p, data_type=DataType.PRIMARY)
        hit = False
        for x in cur:
            if x is r:
                hit = True
        return hit and r.available.is_set()

    with DetLoop(max_steps=4000) as loop:
        task = loop.create_task(dm.get_source_location(p, dst_dep))
        loop.run_until_quiescent()
        if task.done():
            return verdict(task)
        for ev in events:
            e = _pick(ev, 6)
            if e is None:
                return True
            j = e % 3
            if e < 3:
                if states[j] == 0:
                    return True  # nothing registered there: not a meaningful event
                dm.invalidate_location(locs[j], p)
                if j in valid:
                    valid.remove(j)
            else:
                if j not in flight:
                    return True
                flight.pop(j).available.set()
            loop.run_until_quiescent()
            if task.done():
                return verdict(task)
        for j in list(flight):
            flight.pop(j).available.set()
        loop.run_until_quiescent()
        if not task.done():
            task.cancel()
            loop.run_until_quiescent()
            return False
        return verdict(task)



# ---------------------------------------------------------------- obligations

IMPORTS = "from harness.C21 import *"
OPS = {"R": "register", "I": "invalidate", "X": "relate"}


def _skeletons(lengths, alphabet="RIX", need=""):
    """Skeletons of the given lengths that start with a registration
    (invalidate/relate need an earlier registration to refer to)."""
    out = []
    for n in lengths:
        for sk in itertools.product(alphabet, repeat=n):
            s = "".join(sk)
            if s[0] == "R" and all(c in s for c in need):
                out.append(s)
    return out


def _operands(variant, table, skel, fixed_type):
    """[(variable name, range)] in skeleton order; range 1 = concrete 0."""
    nl = N_LOCS[variant]
    npth = len(PATH_TABLES[table])
    out, nr = [], 0
    for k, op in enumerate(skel):
        if op == "R":
            out += [(f"l{k}", nl), (f"p{k}", npth), (f"t{k}", 1 if fixed_type else 2)]
            nr += 1
        elif op == "I":
            out += [(f"l{k}", nl), (f"p{k}", npth)]
        else:
            out += [(f"a{k}", nr), (f"b{k}", nr)]
    return out


def _count(operands, fix) -> int:
    total = 1
    for v, r in operands:
        if v not in fix:
            total *= r
    return total


def _partition(operands, limit):
    """Fix leading path/location operands concretely until a part has <= limit combinations."""
    fixable = [(v, r) for v, r in operands if r > 1 and v[0] in "pl"]
    chosen, total = [], _count(operands, {})
    for v, r in fixable:
        if total <= limit:
            break
        chosen.append((v, r))
        total = -(-total // r)
    return [dict(zip([v for v, _ in chosen], combo)) for combo in itertools.product(*[range(r) for _, r in chosen])]


def _group(skel):
    if "X" in skel:
        return "histories with relations: related copies are reported, invalidation and re-registration stay consistent"
    if "I" in skel:
        return "register / invalidate / re-register histories (subtree invalidated, other locations untouched, re-registration restores)"
    return "registration makes the path and all its ancestor directories available on that location only"


def _make_key(variant, table, skels, argv, pnames):
    def key(call: str):
        """Root cause / clause label of a counterexample `h(...)`, evaluated natively (diagnosis only)."""
        import ast

        try:
            node = ast.parse(call, mode="eval").body
            env = {}
            for name, a in zip(pnames, node.args):
                env[name] = ast.literal_eval(a)
            for kw in node.keywords:
                env[kw.arg] = ast.literal_eval(kw.value)
            vals = [env[a] if a in env else int(a) for a in argv]
            label = explain_seq(variant, table, skels, vals[0], vals[1:])
        except Exception as e:  # diagnosis must never break the run
            return "explain-failed:" + type(e).__name__
        if label is not None and label.endswith("[stale-valid_paths]"):
            return "stale-valid_paths"
        return label

    return key


def _mk_spec(variant, table, skels, fixed_type, fix):
    """One obligation for a group of skeletons (a solver variable selects the skeleton)."""
    per = [_operands(variant, table, sk, fixed_type) for sk in skels]
    nl = N_LOCS[variant]
    if len(skels) == 1:
        operands = per[0]
        n = _count(operands, fix)
    else:  # generic operand slots, each as wide as the widest skeleton needs
        width = max(len(o) for o in per)
        operands = [(f"x{j}", max(o[j][1] for o in per if j < len(o))) for j in range(width)]
        n = sum(_count(o, {}) for o in per)
    params, pre, argv = [], [], []
    narrow = []
    if len(skels) > 1:
        params.append("sel: int")
        pre.append(f"0 <= sel < {len(skels)}")
        argv.append("sel")
        # a history that needs a narrower range than the shared slot offers
        for k, o in enumerate(per):
            for j, (_, r) in enumerate(o):
                if r < operands[j][1]:
                    narrow.append(f"sel != {k} or x{j} < {r}")
    else:
        argv.append("0")
    for v, r in operands:
        if v in fix:
            argv.append(str(fix[v]))
        elif r == 1:
            argv.append("0")
        else:
            params.append(f"{v}: int")
            pre.append(f"0 <= {v} < {r}")
            argv.append(v)
    pre += narrow
    call = f"prop_seq({variant!r}, {table!r}, {tuple(skels)!r}, {argv[0]}, [{', '.join(argv[1:])}])"
    name = f"{variant}_{table}_{'+'.join(skels)}" + ("_prim" if fixed_type else "") + "".join(f"_{v}{fix[v]}" for v in fix)
    hist = " | ".join(" -> ".join(OPS[o] for o in sk) for sk in skels)
    bound = (
        f"histories {hist}; location table {variant!r} ({nl} locations), path table {PATH_TABLES[table]}; "
        "each register/invalidate picks any location and any path, each relate any ordered pair of the earlier registrations"
        + ("; every registration has data type PRIMARY" if fixed_type else "; every registration is PRIMARY or SYMBOLIC_LINK")
        + (f"; partition: {', '.join(f'{v}={c}' for v, c in fix.items())}" if fix else "")
        + f" ({n} operand combinations); all {len(_query_paths(variant, table))} paths {_query_paths(variant, table)} x {nl} locations queried after the last op"
    )
    return Spec(
        name=name,
        group=_group("".join(skels)),
        source=mk_source(IMPORTS, ", ".join(params), pre, call),
        cond=200 + n // 2,
        path=60,
        bound=bound,
        symbolic=f"{len(params)} solver integers (skeleton selector / location / path / data type / related pair)",
        targets=T_ALL,
        finding_key=_make_key(variant, table, tuple(skels), argv, [q.split(":")[0] for q in params]),
    )


def _plan(tier):
    """(variant, table, skeleton groups, data type fixed to PRIMARY?)

    A group (list) of skeletons is ONE obligation whose first solver variable
    selects the skeleton; a single skeleton may be partitioned on its leading operands."""
    one = lambda sks: [[s] for s in sks]
    short = ["R", "RR", "RI", "RX"]
    small3 = ["RIX", "RXR", "RXI", "RXX"]
    if tier == "quick":
        return [
            # depth-3 tree, two deployments (one local): every history of length <= 2, both data types
            ("D", "P5", [short], False),
            # every history of length 3 except pure registration (thorough tier)
            ("D", "P5", [["RRI"], ["RIR"], ["RII"], ["RRX"] + small3], True),
            # same deployment, two location names: invalidation must respect the name
            ("S", "P4", [["RI", "RRI", "RIR"]], True),
            # relations on one location (links): histories of length 4 and the re-registration history
            ("1", "P3", [["RRXI", "RRIX", "RXIR", "RXRI", "RIXR", "RRXR"]], True),
            ("1", "P3", [["RRXIR"], ["RIRRX"]], True),
        ]
    return [
        ("D", "P5", [short, small3] + one(["RRI", "RIR", "RII", "RRX"]), False),
        ("D", "P5", [["RRR"]], True),
        ("S", "P5", [short], False),
        ("S", "P5", [small3] + one(["RRI", "RIR", "RII", "RRX"]), True),
        ("T", "P4", [short], False),
        ("T", "P4", [small3] + one(["RRI", "RIR", "RII", "RRX"]), True),
        ("W", "P5", [short], False),
        ("W", "P5", [small3] + one(["RRI", "RIR", "RII", "RRX"]), True),
        (
            "1",
            "P5",
            [
                ["RRRX"],
                ["RRIX", "RRXI"],
                ["RRXR", "RRXX"],
                ["RIRX"],
                ["RIIX", "RIXR", "RIXI", "RIXX", "RXRR", "RXRI", "RXRX", "RXIR", "RXII", "RXIX", "RXXR", "RXXI", "RXXX"],
            ],
            True,
        ),
        ("1", "P4", one(["RRXIR", "RRXII", "RRXIX", "RRXRI", "RIRXR", "RIRXI", "RRIRX", "RIRRX", "RRRXI", "RXIRX"]), True),
        ("D", "P4", one(["RRIR"]), True),
    ]


def _wait_specs(tier):
    K = 2 if tier == "quick" else 3
    out = []
    ev = [f"e{i}" for i in range(K)]
    for s0 in range(3):
        out.append(
            Spec(
                name=f"wait_inflight_s{s0}_K{K}",
                group="(iv) get_source_location across its suspension point (in-flight copies invalidated / completed while it waits)",
                source=mk_source(
                    IMPORTS,
                    "s1: int, s2: int, dst: int, " + ", ".join(f"{e}: int" for e in ev),
                    ["0 <= s1 <= 2", "0 <= s2 <= 2", "0 <= dst <= 2"] + [f"0 <= {e} <= 5" for e in ev],
                    f"prop_wait(({s0}, s1, s2), dst, ({', '.join(ev)},))",
                ),
                cond=900 if tier == "quick" else 2400,
                path=60,
                bound=f"path /a on the three locations of table 'T' (n0/d0, n1/d0, local n0/d1), each absent / available / in flight (location 0: {['absent', 'available', 'in flight'][s0]}, partition); "
                f"destination deployment d0 / d1 / unrelated; {K} symbolic events (invalidate the copy on location j | complete the transfer to location j) while the call waits, then every remaining transfer completes; DetLoop, one waiter",
                symbolic=f"2 copy states, destination, {K} events",
                targets=("streamflow.data.manager.DefaultDataManager.get_source_location", "streamflow.data.manager.DefaultDataManager.invalidate_location", "streamflow.data.manager._RemotePathMapper.invalidate_location"),
            )
        )
    return out


def specs(tier: str):
    limit = 750 if tier == "quick" else 2400
    out, seen = [], set()
    for variant, table, groups, fixed_type in _plan(tier):
        for skels in groups:
            if len(skels) == 1:
                parts = _partition(_operands(variant, table, skels[0], fixed_type), limit)
            else:
                parts = [{}]
            for fix in parts:
                sp = _mk_spec(variant, table, skels, fixed_type, fix)
                if sp.name not in seen:
                    seen.add(sp.name)
                    out.append(sp)
    return out + _wait_specs(tier)
