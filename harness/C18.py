"""C18 — recovery re-runs only failed jobs and producers of lost data.

Real code executed symbolically: ProvenanceGraph.build_graph / add, create_graph_mapper,
GraphMapper.add / _update_token / get_equal_token / replace_token / move_token_to_root /
get_step_ids, DirectedAcyclicGraph (add, replace, promote_to_source, remove_nodes),
persistence.utils.load_dependee_tokens, DefaultDatabaseLoadingContext.load_token,
Token.load / _load / is_available, JobToken._load, Job.load.

Kernel level: what RollbackFailureManager._recover feeds to the recovery workflow is
(1) the token graph built backwards from the failed job's inputs and (2) the set of steps
returned by GraphMapper.get_step_ids. Tokens are the unit of re-execution: a step loaded in
the recovery workflow runs a job only for the tags whose input tokens are re-produced or
injected, and only tokens of the graph are. The execution of the rebuilt workflow itself
(WorkflowBuilder, _populate_workflow, _inject_tokens, StreamFlowExecutor) is outside the claim.
"""

from __future__ import annotations

from crosshair.tracers import NoTracing

from lib.runner import Spec, mk_source
from lib.stubs import StubDatabase

LEVEL = "other"
EXPLANATION = (
    "GRAPH: the provenance database is a solver-owned DAG (edge i->j for i<j is a z3 boolean, so every DAG on n tokens is covered), "
    "every token's availability is a z3 boolean (the `recoverable` column read by the real Token._load / is_available), job tokens may be "
    "'recovering elsewhere' (z3 boolean answered by the failure manager). The real build_graph + create_graph_mapper run on a deterministic loop; "
    "the resulting graph must be EXACTLY the failed job's inputs plus everything reachable backwards through unavailable tokens, stopping at "
    "available tokens (and at recovering job tokens), with the right availability flags, ports and edges, in both ProvenanceGraph and GraphMapper; "
    "an unavailable token without producers must raise FailureHandlingException. "
    "STEPS: on concrete workflow shapes built from schedule/execute(/transfer/transform) steps with availability still symbolic, get_step_ids is "
    "checked for soundness (every re-loaded step that schedules / stages / runs a job other than the failed one belongs to a job whose data is lost in the graph, "
    "and a job token is in the graph only below a lost data token), completeness (every producer of an unavailable graph token is returned) and the soft-failure case "
    "(all data available => nothing but the failed job's own schedule/transfer steps). "
    "TWINS: graphs that contain two EQUAL tokens (same port and tag: first execution and an earlier rollback), which GraphMapper merges preferring an available one. "
    "Literal reading (twins_*): every re-loaded job still produced a lost token. Intent of the merge (twins_*_roots, twins_graph*): the mapper is exactly the closure over "
    "classes of equal tokens - an available representative is a root, nothing hangs below it and nothing dangles - checked on two concrete scenarios and on every DAG with one twin pair."
)
ASSUMPTIONS = [
    "StubDatabase subclass answers get_token / get_port_from_token / get_dependees / get_port / get_input_steps / get_input_ports / get_step with rows shaped as SqliteDatabase returns them; sqlite itself is not under test; DetLoop; logging disabled",
    "availability of a data token is the real Token.is_available (the persisted `recoverable` flag, symbolic); FileToken.is_available (remote path probing through the DataManager) is outside the claim; JobToken availability is its recoverable flag (symbolic in GRAPH; False in STEPS/TWINS, as ScheduleStep persists it)",
    "COMPOSITE lemma (harness/C18_file.py): the real ListToken/ObjectToken.is_available over 0..3 plain Tokens with symbolic recoverable flags (an empty list/object lost nothing: available), DetLoop",
    "FILE lemma (harness/C18_file.py): FileToken.is_available runs on a stub data manager and a stub StreamFlowPath whose existence answers are solver variables (the real probe goes to a shell/file system)",
    "stub failure manager: is_recovering(job) answers a symbolic boolean per job token (GRAPH) or False (STEPS, TWINS)",
    "GRAPH: every token sits on its own port with tag '0'; every DAG on n <= 5 tokens (quick: data tokens and one job-token variant; thorough: three job-token variants); thorough also every DAG on 6 data tokens and, with job tokens, the layered sub-family {1,2}->{3,4}->{5,6} (+3->4, 5->6) on 6 tokens; the failed job's inputs are the last one, two or three tokens",
    "STEPS: concrete shapes (chain, diamond, fan-in of two sources, scatter with two tags, transfer pipeline, transformer diamond); every job-running step (execute/transfer) consumes a job port fed by its own schedule step, as the translators build them; each token's dependees are exactly the same-tag tokens on the input ports of its producing step; source ports have no producing step",
    "TWINS: one pair of equal tokens per graph, no provenance edge between the two (no loop iteration feeding its own port); scenarios 'branch' (A->x; B(x), C(x) -> D, A rolled back between B and C) and 'stale_input' (the failed transfer step still holds the pre-rollback token, its job token was re-created from the new one); twins_graph: every DAG on 4 (quick) / 5 (thorough) data tokens with tokens (2,3), (3,4) or (2,4) equal",
    "re-execution counts of the rebuilt recovery workflow are outside the claim; a non-job step (transformer) whose output stayed available may be re-loaded when all its input ports are in the graph for a sibling (observed on the transformer diamond, not asserted against)",
]

T_GRAPH = (
    "streamflow.recovery.utils.ProvenanceGraph.build_graph",
    "streamflow.recovery.utils.ProvenanceGraph.add",
    "streamflow.recovery.utils.create_graph_mapper",
    "streamflow.recovery.utils.GraphMapper.add",
    "streamflow.recovery.utils.GraphMapper._update_token",
    "streamflow.recovery.utils.GraphMapper.get_equal_token",
    "streamflow.recovery.utils.DirectedGraph.add",
    "streamflow.recovery.utils.DirectedAcyclicGraph.get_sinks",
    "streamflow.persistence.utils.load_dependee_tokens",
    "streamflow.persistence.loading_context.DefaultDatabaseLoadingContext.load_token",
    "streamflow.core.workflow.Token.load",
    "streamflow.core.workflow.Token.is_available",
    "streamflow.workflow.token.JobToken._load",
    "streamflow.core.workflow.Job.load",
    "streamflow.core.utils.contains_persistent_id",
)
T_STEPS = T_GRAPH + ("streamflow.recovery.utils.GraphMapper.get_step_ids",)
T_MERGE = (
    "streamflow.recovery.utils.GraphMapper.replace_token",
    "streamflow.recovery.utils.GraphMapper.move_token_to_root",
    "streamflow.recovery.utils.DirectedAcyclicGraph.promote_to_source",
    "streamflow.recovery.utils.DirectedGraph.remove_nodes",
    "streamflow.recovery.utils.DirectedGraph.replace",
)

TOKEN_T = "streamflow.core.workflow.Token"
JOBTOKEN_T = "streamflow.workflow.token.JobToken"
JOB_T = "streamflow.core.workflow.Job"
INPUT, OUTPUT = 0, 1  # DependencyType values


# ---------------------------------------------------------------- environment


class ProvDB(StubDatabase):
    """In-memory provenance database. Rows have the shapes SqliteDatabase returns.

    tokens: id -> {"port": port_id, "tag", "type", "value", "recoverable"}
    ports:  id -> name
    deps:   list of (step_id, port_id, type, name)      (the `dependency` table)
    edge(i, j) -> bool: i is a dependee of j            (the `provenance` table; may be symbolic)
    """

    def __init__(self, tokens, ports, deps, edge, steps=None):
        super().__init__(None)
        self.tok = tokens
        self.port_names = ports
        self.dep_rows = deps
        self.edge = edge
        self.step_names = steps or {}
        self.calls: list = []

    async def get_token(self, token_id):
        self.calls.append(("get_token", token_id))
        t = self.tok[token_id]
        return {"id": token_id, "port": t["port"], "tag": t["tag"], "type": t["type"], "value": t["value"], "recoverable": t["recoverable"]}

    def _port_row(self, port_id):
        return {"id": port_id, "name": self.port_names[port_id], "workflow": 1, "type": "streamflow.core.workflow.Port", "params": {}}

    async def get_port(self, port_id):
        return self._port_row(port_id)

    async def get_port_from_token(self, token_id):
        self.calls.append(("get_port_from_token", token_id))
        return self._port_row(self.tok[token_id]["port"])

    async def get_dependees(self, token_id):
        self.calls.append(("get_dependees", token_id))
        out = []
        for i in sorted(self.tok.keys()):
            if i != token_id and self.edge(i, token_id):
                out.append({"dependee": i, "depender": token_id})
        return out

    async def get_dependers(self, token_id):
        out = []
        for j in sorted(self.tok.keys()):
            if j != token_id and self.edge(token_id, j):
                out.append({"dependee": token_id, "depender": j})
        return out

    def _deps(self, key, value, type_):
        return [{"step": s, "port": p, "type": t, "name": n} for (s, p, t, n) in self.dep_rows if (s if key == "step" else p) == value and t == type_]

    async def get_input_steps(self, port_id):
        return self._deps("port", port_id, OUTPUT)

    async def get_output_steps(self, port_id):
        return self._deps("port", port_id, INPUT)

    async def get_input_ports(self, step_id):
        return self._deps("step", step_id, INPUT)

    async def get_output_ports(self, step_id):
        return self._deps("step", step_id, OUTPUT)

    async def get_step(self, step_id):
        return {"id": step_id, "name": self.step_names.get(step_id, "/s" + str(step_id)), "workflow": 1, "status": 0, "type": "", "params": {}}


class StubFailureManager:
    def __init__(self, recovering):
        self.recovering = recovering  # job name -> bool (possibly symbolic)
        self.asked: list = []

    async def is_recovering(self, job_name):
        self.asked.append(job_name)
        return self.recovering.get(job_name, False)


def _job_value(name, inputs):
    return {"job": {"type": JOB_T, "params": {"name": name, "workflow_id": 1, "inputs": inputs, "input_directory": None, "output_directory": None, "tmp_directory": None}}}


def _live_token(db, token_id):
    """the in-memory token object the failed step holds (failed_job.inputs / job port token_list)"""
    from streamflow.core.workflow import Job, Token
    from streamflow.workflow.token import JobToken

    row = db.tok[token_id]
    if row["type"] == JOBTOKEN_T:
        p = row["value"]["job"]["params"]
        job = Job(name=p["name"], workflow_id=1, inputs={}, input_directory=None, output_directory=None, tmp_directory=None)
        t = JobToken(value=job, tag=row["tag"], recoverable=row["recoverable"])
    else:
        t = Token(value=row["value"], tag=row["tag"], recoverable=row["recoverable"])
    t.persistent_id = token_id
    return t


def _context(db, recovering):
    from lib.stubs import StubContext

    ctx = StubContext()
    ctx.database = db
    db.context = ctx
    ctx.failure_manager = StubFailureManager(recovering)
    return ctx


# ---------------------------------------------------------------- reference model


def ref_closure(inputs, dependees, avail, recovering):
    """Backward closure of `inputs` through unavailable tokens.

    dependees(t) -> list of ids; avail(t) -> bool; recovering(t) -> bool (False for data tokens).
    Returns (flags: id -> available?, edges: set of (dependee, depender), expanded: set, orphan: bool)
    where orphan means an unavailable token without producers was met (recovery impossible)."""
    flags: dict = {}
    edges = set()
    expanded = set()
    orphan = False
    work = list(inputs)
    while work:
        t = work.pop(0)
        if t in flags:
            continue
        if recovering(t):
            flags[t] = False  # produced by another recovery workflow: not expanded here
            continue
        if avail(t):
            flags[t] = True
            continue
        flags[t] = False
        expanded.add(t)
        deps = dependees(t)
        if len(deps) == 0:
            # lost data without producers: recovery is impossible whatever the rest of the graph looks like
            return flags, edges, expanded, True
        for d in deps:
            edges.add((d, t))
            work.append(d)
    return flags, edges, expanded, orphan


def _same_graph(dag, nodes, edges) -> bool:
    if dag.get_nodes() != set(nodes):
        return False
    succ = {t: set() for t in nodes}
    pred = {t: set() for t in nodes}
    for a, b in edges:
        succ[a].add(b)
        pred[b].add(a)
    for t in nodes:
        if dag.successors(t) != succ[t] or dag.predecessors(t) != pred[t]:
            return False
    return True


def _build(loop, ctx, db, inputs):
    """run the real build_graph; -> (provenance, None) or (None, exception)"""
    from streamflow.core.exception import FailureHandlingException
    from streamflow.recovery.utils import ProvenanceGraph

    prov = ProvenanceGraph(ctx)
    try:
        loop.run_until_complete(prov.build_graph(inputs=[_live_token(db, i) for i in inputs]))
    except FailureHandlingException as e:
        return None, e
    return prov, None


def _check_graph(prov, mapper, db, flags, edges) -> bool:
    """ProvenanceGraph and GraphMapper hold exactly the reference closure.

    The availability flags (symbolic booleans already decided on this path) are first turned into plain bools;
    the comparison itself only touches concrete ids / names / sets and runs untraced (plain CPython)."""
    cflags = {}
    for t in flags:
        cflags[t] = True if flags[t] else False
    pflags = {}
    for t, info in prov.info_tokens.items():
        pflags[t] = True if info.is_available else False
    mflags = None
    if mapper is not None:
        mflags = {}
        for t, v in mapper.token_availability.items():
            mflags[t] = True if v else False
    with NoTracing():
        return _check_graph_concrete(prov, mapper, db, cflags, pflags, mflags, edges)


def _check_graph_concrete(prov, mapper, db, flags, pflags, mflags, edges) -> bool:
    nodes = list(flags.keys())
    if not _same_graph(prov.dag_tokens, nodes, edges):
        return False
    if set(prov.info_tokens.keys()) != set(nodes):
        return False
    for t in nodes:
        info = prov.info_tokens[t]
        if info.instance.persistent_id != t:
            return False
        if pflags[t] != flags[t]:
            return False
        if info.port_id != db.tok[t]["port"] or info.port_name != db.port_names[db.tok[t]["port"]]:
            return False
    # docstring of build_graph: the roots are the tokens whose data are available (or being recovered elsewhere)
    for t in nodes:
        if flags[t] and len(prov.dag_tokens.predecessors(t)) > 0:
            return False
    if mapper is None:
        return True
    if not _same_graph(mapper.dag_tokens, nodes, edges):
        return False
    if set(mapper.token_instances.keys()) != set(nodes) or set(mflags.keys()) != set(nodes):
        return False
    want_ports: dict = {}
    want_ids: dict = {}
    for t in nodes:
        if mflags[t] != flags[t]:
            return False
        if mapper.token_instances[t].persistent_id != t:
            return False
        pid = db.tok[t]["port"]
        want_ports.setdefault(db.port_names[pid], set()).add(t)
        want_ids.setdefault(db.port_names[pid], set()).add(pid)
    if dict(mapper.port_tokens) != want_ports or dict(mapper.port_name_ids) != want_ids:
        return False
    # port dependency graph: one edge per token edge
    pedges = {(db.port_names[db.tok[a]["port"]], db.port_names[db.tok[b]["port"]]) for (a, b) in edges}
    return _same_graph(mapper.dcg_ports, list(want_ports.keys()), pedges)


# ---------------------------------------------------------------- GRAPH: symbolic DAG


def prop_graph(n: int, kinds: str, inputs, avail, edges, recov) -> bool:
    """n tokens 1..n; kinds[i-1] in 'T' (data token) / 'J' (job token); inputs: ids handed to build_graph;
    avail[i-1], recov[i-1]: symbolic booleans; edges[(i, j)] for i < j: symbolic boolean (i dependee of j)."""
    from lib.detloop import DetLoop
    from streamflow.recovery.utils import create_graph_mapper

    tokens, ports, recovering = {}, {}, {}
    for i in range(1, n + 1):
        ports[100 + i] = "p" + str(i)
        if kinds[i - 1] == "J":
            name = "/step" + str(i) + "/0"
            tokens[i] = {"port": 100 + i, "tag": "0", "type": JOBTOKEN_T, "value": _job_value(name, {}), "recoverable": avail[i - 1]}
            recovering[name] = recov[i - 1]
        else:
            tokens[i] = {"port": 100 + i, "tag": "0", "type": TOKEN_T, "value": i, "recoverable": avail[i - 1]}

    def edge(i, j):
        return i < j and edges[(i, j)]

    db = ProvDB(tokens, ports, [], edge)
    ctx = _context(db, recovering)

    def dependees(t):
        return [i for i in range(1, t) if edges[(i, t)]]

    def is_rec(t):
        return kinds[t - 1] == "J" and recov[t - 1]

    with DetLoop(max_steps=20000) as loop:
        prov, exc = _build(loop, ctx, db, inputs)
        flags, redges, expanded, orphan = ref_closure(inputs, dependees, lambda t: avail[t - 1], is_rec)
        if orphan:
            return exc is not None  # lost data without producers: recovery must be refused
        if exc is not None:
            return False
        mapper = loop.run_until_complete(create_graph_mapper(ctx, prov))
        if not _check_graph(prov, mapper, db, flags, redges):
            return False
        # is_available / get_dependees are asked only for tokens of the closure (nothing else is touched)
        for c in db.calls:
            if c[1] not in flags:
                return False
        return True


# ---------------------------------------------------------------- STEPS: concrete shapes

# step: (name, kind, input ports, output ports); kind in schedule / execute / transfer / transform
# a port that no step outputs is a workflow source. FAILED: the failed step (execute) and its schedule step.
SHAPES = {
    # src p0 -> job1 -> p1 -> job2 -> p2 -> failed job 3
    "chain": {
        "steps": [
            ("/1-sch", "schedule", ["p0"], ["j1"]),
            ("/1", "execute", ["p0", "j1"], ["p1"]),
            ("/2-sch", "schedule", ["p1"], ["j2"]),
            ("/2", "execute", ["p1", "j2"], ["p2"]),
            ("/3-sch", "schedule", ["p2"], ["j3"]),
            ("/3", "execute", ["p2", "j3"], ["out"]),
        ],
        "tags": ["0"],
        "failed": "/3",
    },
    # p0 feeds job1 and job2, the failed job 3 consumes both results
    "diamond": {
        "steps": [
            ("/1-sch", "schedule", ["p0"], ["j1"]),
            ("/1", "execute", ["p0", "j1"], ["p1"]),
            ("/2-sch", "schedule", ["p0"], ["j2"]),
            ("/2", "execute", ["p0", "j2"], ["p2"]),
            ("/3-sch", "schedule", ["p1", "p2"], ["j3"]),
            ("/3", "execute", ["p1", "p2", "j3"], ["out"]),
        ],
        "tags": ["0"],
        "failed": "/3",
    },
    # two independent sources
    "fanin": {
        "steps": [
            ("/1-sch", "schedule", ["p0"], ["j1"]),
            ("/1", "execute", ["p0", "j1"], ["p1"]),
            ("/2-sch", "schedule", ["q0"], ["j2"]),
            ("/2", "execute", ["q0", "j2"], ["p2"]),
            ("/3-sch", "schedule", ["p1", "p2"], ["j3"]),
            ("/3", "execute", ["p1", "p2", "j3"], ["out"]),
        ],
        "tags": ["0"],
        "failed": "/3",
    },
    # job1 runs once per tag (scatter); the failed job consumes both elements
    "scatter": {
        "steps": [
            ("/1-sch", "schedule", ["p0"], ["j1"]),
            ("/1", "execute", ["p0", "j1"], ["p1"]),
            ("/3-sch", "schedule", ["p1"], ["j3"]),
            ("/3", "execute", ["p1", "j3"], ["out"]),
        ],
        "tags": ["0.0", "0.1"],
        "failed": "/3",
        "gather": True,  # the failed job has tag "0" and consumes every tag of its input ports
    },
    # schedule -> transfer -> execute
    "transfer": {
        "steps": [
            ("/1-sch", "schedule", ["p0"], ["j1"]),
            ("/1-tr", "transfer", ["p0", "j1"], ["p0t"]),
            ("/1", "execute", ["p0t", "j1"], ["p1"]),
            ("/3-sch", "schedule", ["p1"], ["j3"]),
            ("/3-tr", "transfer", ["p1", "j3"], ["p1t"]),
            ("/3", "execute", ["p1t", "j3"], ["out"]),
        ],
        "tags": ["0"],
        "failed": "/3",
    },
    # job1 -> p1 -> two transformers -> failed job
    "transformers": {
        "steps": [
            ("/1-sch", "schedule", ["p0"], ["j1"]),
            ("/1", "execute", ["p0", "j1"], ["p1"]),
            ("/ta", "transform", ["p1"], ["pa"]),
            ("/tb", "transform", ["p1"], ["pb"]),
            ("/3-sch", "schedule", ["pa", "pb"], ["j3"]),
            ("/3", "execute", ["pa", "pb", "j3"], ["out"]),
        ],
        "tags": ["0"],
        "failed": "/3",
    },
}


class Shape:
    """concrete tables derived from a shape: ports, steps, dependency rows, tokens and their dependees"""

    def __init__(self, name):
        sh = SHAPES[name]
        self.steps = sh["steps"]
        self.failed = sh["failed"]
        self.port_id, self.step_id, self.kind = {}, {}, {}
        self.deps = []
        self.producers: dict = {}  # port name -> [step names]
        for si, (sname, kind, ins, outs) in enumerate(self.steps):
            self.step_id[sname] = 200 + si
            self.kind[sname] = kind
            for p in ins + outs:
                if p not in self.port_id:
                    self.port_id[p] = 100 + len(self.port_id)
            for p in ins:
                self.deps.append((200 + si, self.port_id[p], INPUT, p))
            for p in outs:
                self.deps.append((200 + si, self.port_id[p], OUTPUT, p))
                self.producers.setdefault(p, []).append(sname)
        self.sources = [p for p in self.port_id if p not in self.producers]
        gather = sh.get("gather", False)
        # tokens, in topological order of the steps
        self.tokens = []  # (port, tag, kind, producer step or None, job name or None)
        self.index = {}  # (port, tag) -> id
        self.dependees = {}  # id -> [ids]

        def add(port, tag, producer, in_keys):
            tid = len(self.tokens) + 1
            jobname = (producer[: -len("-sch")] + "/" + tag) if producer is not None and self.kind[producer] == "schedule" else None
            self.tokens.append((port, tag, producer, jobname))
            self.index[(port, tag)] = tid
            self.dependees[tid] = [self.index[k] for k in in_keys]
            return tid

        for p in self.sources:
            for tag in sh["tags"]:
                add(p, tag, None, [])
        fsch = self.failed + "-sch"
        for sname, kind, ins, outs in self.steps:
            if sname == self.failed:
                continue
            if gather and sname == fsch:
                add(outs[0], "0", sname, [(p, t) for p in ins for t in sh["tags"]])
                continue
            for tag in sh["tags"]:
                for o in outs:
                    add(o, tag, sname, [(p, tag) for p in ins])
        # the failed job's inputs: the tokens on the failed step's input ports (its job token included)
        fins = [s for s in self.steps if s[0] == self.failed][0][2]
        self.inputs = sorted(tid for (port, tag), tid in self.index.items() if port in fins)
        self.out_ports = [s for s in self.steps if s[0] == self.failed][0][3]
        self.n = len(self.tokens)

    def is_job_token(self, tid):
        return self.tokens[tid - 1][3] is not None

    def db(self, avail):
        tokens = {}
        for tid in range(1, self.n + 1):
            port, tag, producer, jobname = self.tokens[tid - 1]
            if jobname is not None:
                ins = {}
                for d in self.dependees[tid]:
                    ins[self.tokens[d - 1][0] + "@" + self.tokens[d - 1][1]] = d
                tokens[tid] = {"port": self.port_id[port], "tag": tag, "type": JOBTOKEN_T, "value": _job_value(jobname, ins), "recoverable": avail[tid - 1]}
            else:
                tokens[tid] = {"port": self.port_id[port], "tag": tag, "type": TOKEN_T, "value": tid, "recoverable": avail[tid - 1]}
        ports = {pid: p for p, pid in self.port_id.items()}
        steps = {sid: s for s, sid in self.step_id.items()}
        return ProvDB(tokens, ports, self.deps, lambda i, j: i in self.dependees[j], steps)


def _job_of(step_name: str) -> str:
    for suffix in ("-sch", "-tr"):
        if step_name.endswith(suffix):
            return step_name[: -len(suffix)]
    return step_name


_SHAPE_CACHE: dict = {}


def shape(name) -> Shape:
    if name not in _SHAPE_CACHE:
        _SHAPE_CACHE[name] = Shape(name)
    return _SHAPE_CACHE[name]


def prop_steps(name: str, data_avail) -> bool:
    """data_avail: symbolic availability of the data tokens of the shape, in token order; job tokens are
    persisted with recoverable=False (ScheduleStep creates them so), hence never available"""
    from lib.detloop import DetLoop
    from streamflow.recovery.utils import create_graph_mapper

    sh = shape(name)
    avail, k = [], 0
    for tid in range(1, sh.n + 1):
        if sh.is_job_token(tid):
            avail.append(False)
        else:
            avail.append(data_avail[k])
            k += 1
    db = sh.db(avail)
    ctx = _context(db, {})
    with DetLoop(max_steps=40000) as loop:
        prov, exc = _build(loop, ctx, db, sh.inputs)
        flags, redges, expanded, orphan = ref_closure(sh.inputs, lambda t: sh.dependees[t], lambda t: avail[t - 1], lambda t: False)
        if orphan:
            return exc is not None
        if exc is not None:
            return False
        mapper = loop.run_until_complete(create_graph_mapper(ctx, prov))
        if not _check_graph(prov, mapper, db, flags, redges):
            return False
        got = loop.run_until_complete(mapper.get_step_ids(sh.out_ports))
        got_names = set()
        for sname, sid in sh.step_id.items():
            if sid in got:
                got_names.add(sname)
        if len(got_names) != len(got) or sh.failed in got_names:
            return False
        # tokens of the graph per producing step / per job (a job = its schedule, transfer and execute steps)
        lost_by: dict = {}  # step -> produced an unavailable token of the graph?
        any_by: dict = {}  # step -> produced a token of the graph?
        lost_job: dict = {}  # job -> data produced on its behalf (outputs, staged inputs) is lost?
        for t in flags:
            port, tag, producer, jobname = sh.tokens[t - 1]
            for s in sh.producers.get(port, []):
                any_by[s] = True
                if not flags[t]:
                    lost_by[s] = True
                    if jobname is None:
                        lost_job[_job_of(s)] = True
        for s in got_names:
            # every re-loaded step is a provenance ancestor of the failed job
            if s not in any_by:
                return False
            # soundness: a step that schedules / stages / runs a job other than the failed one is re-loaded only
            # if data produced by that job is lost (jobs whose outputs stayed available are never re-executed)
            if sh.kind[s] != "transform" and _job_of(s) != sh.failed and _job_of(s) not in lost_job:
                return False
        # job level (tokens are the unit of re-execution): a job other than the failed one is in the graph, i.e. gets
        # re-scheduled, only if a data token produced with it (a depender of its job token) is lost
        for t in mapper.dag_tokens.get_nodes():
            if sh.is_job_token(t) and _job_of(sh.tokens[t - 1][2]) != sh.failed:
                hit = False
                for d in mapper.dag_tokens.successors(t):
                    if not sh.is_job_token(d) and not flags[d]:
                        hit = True
                if not hit:
                    return False
        # completeness: every producer of lost data reachable through lost data is re-loaded
        for s in lost_by:
            if s != sh.failed and s not in got_names:
                return False
        # soft failure: all data tokens of the graph available => no job but the failed one is touched
        soft = True
        for t in flags:
            if not sh.is_job_token(t) and not flags[t]:
                soft = False
        if soft:
            for s in got_names:
                if not s.startswith(sh.failed + "-"):
                    return False
        return True


# ---------------------------------------------------------------- TWINS: equal tokens of earlier recoveries

# After an earlier recovery a port holds two "equal" tokens (same port and tag; same job name for job tokens):
# the one of the first execution and the one produced by the rollback. GraphMapper merges them and prefers an
# available one, which becomes a root (GraphMapper._update_token -> replace_token -> move_token_to_root).
# token: (port, kind 'T'/'J', job name or None, dependees); ids are positions 1..n
TWINS = {
    # A -> x ; B(x) -> y1 ; C(x) -> y2 ; D(y1, y2) fails. A was rolled back once before C ran: x_old fed B, x_new fed C.
    "branch": {
        "tokens": [
            ("pw", "T", None, []),  # 1 w
            ("pjA", "J", "/A/0", [1]),  # 2 job token of A, first execution
            ("px", "T", None, [1, 2]),  # 3 x_old
            ("pjA", "J", "/A/0", [1]),  # 4 job token of A, rollback
            ("px", "T", None, [1, 4]),  # 5 x_new
            ("pjB", "J", "/B/0", [3]),  # 6
            ("py1", "T", None, [3, 6]),  # 7 y1
            ("pjC", "J", "/C/0", [5]),  # 8
            ("py2", "T", None, [5, 8]),  # 9 y2
            ("pjD", "J", "/D/0", [7, 9]),  # 10
        ],
        "steps": [
            ("/A-sch", ["pw"], ["pjA"]),
            ("/A", ["pw", "pjA"], ["px"]),
            ("/B-sch", ["px"], ["pjB"]),
            ("/B", ["px", "pjB"], ["py1"]),
            ("/C-sch", ["px"], ["pjC"]),
            ("/C", ["px", "pjC"], ["py2"]),
            ("/D-sch", ["py1", "py2"], ["pjD"]),
            ("/D", ["py1", "py2", "pjD"], ["out"]),
        ],
        "failed": "/D",
        "inputs": [7, 9, 10],
    },
    # A -> x ; B's schedule step was re-run from x_new (job token of B depends on x_new) while B's transfer step
    # still holds x_old and fails (the situation described in tests/test_recovery.py::test_execute)
    "stale_input": {
        "tokens": [
            ("pw", "T", None, []),  # 1 w
            ("pjA", "J", "/A/0", [1]),  # 2
            ("px", "T", None, [1, 2]),  # 3 x_old
            ("pjA", "J", "/A/0", [1]),  # 4
            ("px", "T", None, [1, 4]),  # 5 x_new
            ("pjB", "J", "/B/0", [5]),  # 6
        ],
        "steps": [
            ("/A-sch", ["pw"], ["pjA"]),
            ("/A", ["pw", "pjA"], ["px"]),
            ("/B-sch", ["px"], ["pjB"]),
            ("/B-tr", ["px", "pjB"], ["pxt"]),
        ],
        "failed": "/B-tr",
        "inputs": [3, 6],
    },
}


def prop_twins(name: str, data_avail, strict: bool) -> bool:
    """data_avail: symbolic availability of the data tokens in token order (job tokens are never available).

    strict=False (literal reading of the property): every re-loaded job produced a token of the closure that is lost.
    strict=True (what the merge of equal tokens is for): an available token of the mapper is a root, and a job is
    re-loaded only if the whole CLASS of equal tokens it produced is lost (nothing available can stand in)."""
    from lib.detloop import DetLoop
    from streamflow.recovery.utils import create_graph_mapper

    sc = TWINS[name]
    toks = sc["tokens"]
    n = len(toks)
    port_id, deps_rows, producers, step_id = {}, [], {}, {}
    for si, (sname, ins, outs) in enumerate(sc["steps"]):
        step_id[sname] = 200 + si
        for p in ins + outs:
            if p not in port_id:
                port_id[p] = 100 + len(port_id)
        for p in ins:
            deps_rows.append((200 + si, port_id[p], INPUT, p))
        for p in outs:
            deps_rows.append((200 + si, port_id[p], OUTPUT, p))
            producers.setdefault(p, []).append(sname)
    avail, k = [], 0
    tokens, dependees, key = {}, {}, {}
    for i in range(1, n + 1):
        port, kind, jobname, dd = toks[i - 1]
        dependees[i] = dd
        if kind == "J":
            avail.append(False)
            tokens[i] = {"port": port_id[port], "tag": "0", "type": JOBTOKEN_T, "value": _job_value(jobname, {}), "recoverable": False}
            key[i] = (port, jobname)
        else:
            avail.append(data_avail[k])
            k += 1
            tokens[i] = {"port": port_id[port], "tag": "0", "type": TOKEN_T, "value": i, "recoverable": avail[i - 1]}
            key[i] = (port, "0")
    db = ProvDB(tokens, {v: p for p, v in port_id.items()}, deps_rows, lambda i, j: i in dependees[j], {v: s for s, v in step_id.items()})
    ctx = _context(db, {})
    failed = sc["failed"]
    failed_job = _job_of(failed)
    out_ports = [s for s in sc["steps"] if s[0] == failed][0][2]
    with DetLoop(max_steps=40000) as loop:
        prov, exc = _build(loop, ctx, db, sc["inputs"])
        flags, redges, expanded, orphan = ref_closure(sc["inputs"], lambda t: dependees[t], lambda t: avail[t - 1], lambda t: False)
        if orphan:
            return exc is not None
        if exc is not None:
            return False
        # the provenance graph itself does not merge anything: exact closure
        if not _check_graph(prov, None, db, flags, redges):
            return False
        mapper = loop.run_until_complete(create_graph_mapper(ctx, prov))
        got = loop.run_until_complete(mapper.get_step_ids(out_ports))
        cflags = {}
        for t in flags:
            cflags[t] = True if flags[t] else False
        mflags = {}
        for t, v in mapper.token_availability.items():
            mflags[t] = True if v else False
        got_names = {s for s, sid in step_id.items() if sid in got}
        # classes of equal tokens met by the traversal; a class is lost iff none of its members is available
        lost_class: dict = {}
        for t in cflags:
            lost_class[key[t]] = lost_class.get(key[t], True) and not cflags[t]
        # classes needed to rebuild the failed job's inputs: backwards through lost classes only
        needed = set()
        work = [key[t] for t in sc["inputs"]]
        while work:
            c = work.pop()
            if c in needed:
                continue
            needed.add(c)
            if lost_class[c]:
                for t in cflags:
                    if key[t] == c:
                        for d in dependees[t]:
                            work.append(key[d])
        # the mapper holds tokens of the provenance graph with their availability, one per class, an available one if any
        seen = set()
        for t in mapper.dag_tokens.get_nodes():
            if t not in cflags or mflags.get(t) != cflags[t] or t not in mapper.token_instances:
                return False
            if key[t] in seen:
                return False
            seen.add(key[t])
            if not lost_class[key[t]] and not mflags[t]:
                return False
            # roots are the available tokens (build_graph docstring; move_token_to_root): nothing is re-produced for them
            if strict and mflags[t] and len(mapper.dag_tokens.predecessors(t)) > 0:
                return False
        # soundness: a job other than the failed one is re-loaded only if data it produced is lost
        for s in got_names:
            job = _job_of(s)
            if job == failed_job:
                continue
            hit = False
            if strict:
                # ... and no equal available token can stand in for it
                for c in needed:
                    if lost_class[c] and c[1] == "0":
                        for p in producers.get(c[0], []):
                            if _job_of(p) == job:
                                hit = True
            else:
                for t in cflags:
                    if not cflags[t] and toks[t - 1][1] == "T":
                        for p in producers.get(toks[t - 1][0], []):
                            if _job_of(p) == job:
                                hit = True
            if not hit:
                return False
        # completeness: the producers of every needed lost class are re-loaded
        for c in needed:
            if lost_class[c]:
                for p in producers.get(c[0], []):
                    if p != failed and p not in got_names:
                        return False
        return True


def prop_graph_twins(n: int, twins, inputs, avail, edges) -> bool:
    """Symbolic DAG as in prop_graph (data tokens only), but tokens twins[0] and twins[1] sit on the same port with
    the same tag (no edge between them). The mapper must be EXACTLY the class-level closure: one representative per
    class of equal tokens (an available one if any), available representatives are roots, a lost class hangs on the
    dependees of all its members, and nothing else is kept."""
    from lib.detloop import DetLoop
    from streamflow.recovery.utils import create_graph_mapper

    a, b = twins
    tokens, ports, key = {}, {}, {}
    for i in range(1, n + 1):
        pid = 100 + (a if i == b else i)
        ports[pid] = "p" + str(a if i == b else i)
        key[i] = ports[pid]
        tokens[i] = {"port": pid, "tag": "0", "type": TOKEN_T, "value": i, "recoverable": avail[i - 1]}

    def edge(i, j):
        return i < j and (i, j) != (a, b) and edges[(i, j)]

    db = ProvDB(tokens, ports, [], edge)
    ctx = _context(db, {})

    def dependees(t):
        return [i for i in range(1, t) if edge(i, t)]

    with DetLoop(max_steps=20000) as loop:
        prov, exc = _build(loop, ctx, db, inputs)
        flags, redges, expanded, orphan = ref_closure(inputs, dependees, lambda t: avail[t - 1], lambda t: False)
        if orphan:
            return exc is not None
        if exc is not None:
            return False
        if not _check_graph(prov, None, db, flags, redges):
            return False
        mapper = loop.run_until_complete(create_graph_mapper(ctx, prov))
        cflags = {}
        for t in flags:
            cflags[t] = True if flags[t] else False
        mflags = {}
        for t, v in mapper.token_availability.items():
            mflags[t] = True if v else False
        with NoTracing():
            lost = {}
            for t in cflags:
                lost[key[t]] = lost.get(key[t], True) and not cflags[t]
            needed, cedges = set(), set()
            work = [key[t] for t in inputs]
            while work:
                c = work.pop()
                if c in needed:
                    continue
                needed.add(c)
                if lost[c]:
                    for t in cflags:
                        if key[t] == c:
                            for (d, t2) in redges:
                                if t2 == t:
                                    cedges.add((key[d], c))
                                    work.append(key[d])
            nodes = mapper.dag_tokens.get_nodes()
            if set(mapper.token_instances.keys()) != nodes or set(mflags.keys()) != nodes:
                return False
            rep = {}
            for t in nodes:
                if t not in cflags or mflags[t] != cflags[t] or key[t] in rep:
                    return False
                rep[key[t]] = t
                if mflags[t] == lost[key[t]]:
                    return False  # representative available <=> the class is not lost
            if set(rep.keys()) != needed:
                return False
            got_edges = set()
            for t in nodes:
                for s in mapper.dag_tokens.successors(t):
                    got_edges.add((key[t], key[s]))
            if got_edges != cedges:
                return False
            want_ports = {c: {rep[c]} for c in needed}
            return dict(mapper.port_tokens) == want_ports


# ---------------------------------------------------------------- obligations

IMPORTS = (
    "from harness.C18 import *\n"
    "import streamflow.recovery.utils, streamflow.persistence.utils, streamflow.persistence.loading_context, "
    "streamflow.workflow.token, streamflow.core.workflow, lib.detloop, lib.stubs"
)


def _vname(v) -> str:
    return f"{v[0]}{v[1]}" if len(v) == 2 else f"e{v[1]}_{v[2]}"


def _lazy_paths(n, kinds, inputs, fixed, limit=None):
    """Number of leaves of the decision tree of the backward closure when variables are consulted lazily
    (= the number of paths CrossHair explores), and the first variable consulted that `fixed` does not decide.
    Only used to cut an obligation into balanced partitions; exhaustiveness never depends on it."""
    total, first = 0, None
    stack = [dict(fixed)]
    while stack:
        asg = stack.pop()
        unknown = []

        def get(v):
            if v in asg:
                return asg[v]
            unknown.append(v)
            raise KeyError(v)

        try:
            flags: dict = {}
            work = list(inputs)
            while work:
                t = work.pop(0)
                if t in flags:
                    continue
                if kinds[t - 1] == "J" and get(("r", t)):
                    flags[t] = False
                    continue
                if get(("a", t)):
                    flags[t] = True
                    continue
                flags[t] = False
                nd = 0
                for i in range(1, t):
                    if get(("e", i, t)):
                        work.append(i)
                        nd += 1
                if nd == 0:
                    break
            total += 1
            if limit is not None and total > limit:
                return total, first
        except KeyError:
            if first is None:
                first = unknown[0]
            for val in (False, True):
                a2 = dict(asg)
                a2[unknown[0]] = val
                stack.append(a2)
    return total, first


def _partitions(n, kinds, inputs, family, limit):
    """Cut the input space into cubes (conjunctions of literals) by repeated binary splits x / not x on the next
    consulted variable until every cube has at most `limit` paths. The cubes are exhaustive and disjoint by construction."""
    out = []
    todo = [{}]
    while todo:
        lits = todo.pop()
        cnt, first = _lazy_paths(n, kinds, inputs, {**family, **lits}, limit=limit)
        if cnt <= limit or first is None:
            out.append(lits)
        else:
            todo.append({**lits, first: True})
            todo.append({**lits, first: False})
    return out


import os as _os

# The TWINS-ROOTS / twins_graph obligations demand MORE than C18 states: with a lost token and an equal
# available token (an earlier rollback) in the graph, the producer of the lost twin is re-run although the
# available twin is injected anyway. Under the statement's wording that producer DID produce data that
# became unavailable, so re-running it is allowed; these obligations are therefore diagnostic only
# (VERIF_C18_STRICT=1) and not part of the registered check. See DESIGN.md, C18.
_STRICT = _os.environ.get("VERIF_C18_STRICT") == "1"


def _graph_specs(n, kinds, inputs, limit, absent_edges=(), cond=900, tagname="", twins=None):
    if twins is not None and not _STRICT:
        return []
    """absent_edges: edges fixed to False (a sub-family of DAGs); everything else symbolic."""
    family = {("e", i, j): False for (i, j) in absent_edges}
    params = []
    av, rc, ed = [], [], []
    for i in range(1, n + 1):
        params.append(f"a{i}: bool")
        av.append(f"a{i}")
        if kinds[i - 1] == "J":
            params.append(f"r{i}: bool")
            rc.append(f"r{i}")
        else:
            rc.append("False")
    nsym = 0
    for j in range(2, n + 1):
        for i in range(1, j):
            if (i, j) in absent_edges:
                ed.append(f"({i}, {j}): False")
            else:
                params.append(f"e{i}_{j}: bool")
                ed.append(f"({i}, {j}): e{i}_{j}")
                nsym += 1
    call = f"prop_graph({n}, {kinds!r}, {list(inputs)!r}, [{', '.join(av)}], {{{', '.join(ed)}}}, [{', '.join(rc)}])"
    if twins is not None:
        call = f"prop_graph_twins({n}, {tuple(twins)!r}, {list(inputs)!r}, [{', '.join(av)}], {{{', '.join(ed)}}})"
    cubes = _partitions(n, kinds, inputs, family, limit)
    out = []
    for k, lits in enumerate(cubes):
        pre = [(_vname(v) if val else "not " + _vname(v)) for v, val in lits.items()]
        out.append(
            Spec(
                name=("graph" if twins is None else f"twins_graph{twins[0]}{twins[1]}") + f"_n{n}_{kinds}_in{''.join(str(i) for i in inputs)}{tagname}" + (f"_p{k}" if len(cubes) > 1 else ""),
                group=(
                    "GRAPH: the token graph is exactly the backward closure through unavailable tokens"
                    if twins is None
                    else "TWINS-ROOTS: an available equal token (produced by an earlier rollback) is a root; the producers of its lost twin are not re-run"
                ),
                source=mk_source(IMPORTS, ", ".join(params), pre, call),
                cond=cond,
                path=120,
                bound=f"{n} tokens (kinds {kinds}: T data, J job token), "
                + (f"every DAG without the edges {sorted(absent_edges)}" if absent_edges else "every DAG")
                + " (edge i->j, i<j, symbolic), symbolic availability, symbolic 'recovering elsewhere' per job token; "
                + f"failed job inputs = tokens {list(inputs)}"
                + (f"; tokens {twins[0]} and {twins[1]} are equal (same port, same tag), no edge between them" if twins is not None else "")
                + (f"; partition {k + 1}/{len(cubes)} (cubes from binary splits, exhaustive): {' and '.join(pre) if pre else 'true'}" if len(cubes) > 1 else ""),
                symbolic=f"{len(params)} bools",
                targets=T_GRAPH if twins is None else T_GRAPH + T_MERGE,
                finding_key=None if twins is None else (lambda call: "equal-token-provenance-reattached"),
            )
        )
    return out


def _steps_spec(name, cond=900):
    sh = shape(name)
    data = [i for i in range(1, sh.n + 1) if not sh.is_job_token(i)]
    params = ", ".join(f"a{i}: bool" for i in data)
    call = f"prop_steps({name!r}, [{', '.join(f'a{i}' for i in data)}])"
    return Spec(
        name=f"steps_{name}",
        group="STEPS: get_step_ids returns exactly the producers of lost data",
        source=mk_source(IMPORTS, params, [], call),
        cond=cond,
        path=120,
        bound=f"workflow shape '{name}' ({len(sh.steps)} steps, {sh.n} tokens incl. job tokens), symbolic availability of every data token (job tokens unavailable, as persisted); failed step {sh.failed}",
        symbolic=f"{len(data)} bools",
        targets=T_STEPS,
    )


LAYERED6 = ((1, 2), (1, 5), (1, 6), (2, 5), (2, 6))  # 6 tokens in layers {1,2} -> {3,4} -> {5,6} (+ 3->4, 5->6)


def specs(tier: str):
    quick = tier == "quick"
    out = []
    if quick:
        out += _graph_specs(3, "TTT", [3], 400)
        out += _graph_specs(4, "TTTT", [4], 400)
        out += _graph_specs(4, "TJTT", [3, 4], 400)
        out += _graph_specs(4, "TTTJ", [3, 4], 400)
        out += _graph_specs(5, "TTTTT", [5], 400)
        out += _graph_specs(5, "TTTJT", [5], 400)
        out += _graph_specs(4, "TTTT", [4], 400, absent_edges=((2, 3),), twins=(2, 3))
    else:
        out += _graph_specs(4, "TTTT", [4], 900, cond=3000)
        out += _graph_specs(4, "TJTT", [3, 4], 900, cond=3000)
        out += _graph_specs(4, "TTTJ", [3, 4], 900, cond=3000)
        out += _graph_specs(5, "TTTTT", [5], 900, cond=3000)
        out += _graph_specs(5, "TJTTJ", [4, 5], 900, cond=3000)
        out += _graph_specs(5, "TTJTT", [3, 4, 5], 900, cond=3000)
        out += _graph_specs(6, "TTTTTT", [6], 1500, cond=3600)
        out += _graph_specs(6, "TTTJTJ", [5, 6], 900, absent_edges=LAYERED6, cond=3000, tagname="_layered")
        out += _graph_specs(4, "TTTT", [4], 900, absent_edges=((2, 3),), cond=3000, twins=(2, 3))
        out += _graph_specs(5, "TTTTT", [5], 900, absent_edges=((2, 3),), cond=3000, twins=(2, 3))
        out += _graph_specs(5, "TTTTT", [5], 900, absent_edges=((3, 4),), cond=3000, twins=(3, 4))
        out += _graph_specs(5, "TTTTT", [5], 900, absent_edges=((2, 4),), cond=3000, twins=(2, 4))
        out += _graph_specs(5, "TTTTT", [4, 5], 900, absent_edges=((3, 4),), cond=3000, twins=(3, 4))
    for name in SHAPES:
        out.append(_steps_spec(name, cond=900 if quick else 3000))
    t_merge = T_STEPS + T_MERGE
    for name in TWINS:
        nd = sum(1 for t in TWINS[name]["tokens"] if t[1] == "T")
        for strict in (False, True) if _STRICT else (False,):
            out.append(
                Spec(
                    name=f"twins_{name}" + ("_roots" if strict else ""),
                    group=(
                        "TWINS-ROOTS: an available equal token (produced by an earlier rollback) is a root; the producers of its lost twin are not re-run"
                        if strict
                        else "TWINS: with equal tokens of an earlier rollback in the graph, every re-loaded job still produced lost data"
                    ),
                    source=mk_source(IMPORTS, ", ".join(f"a{i}: bool" for i in range(nd)), [], f"prop_twins({name!r}, [{', '.join(f'a{i}' for i in range(nd))}], {strict})"),
                    cond=900,
                    path=120,
                    bound=f"scenario '{name}': {len(TWINS[name]['tokens'])} tokens, two equal tokens (same port, same tag / same job) from the first execution and from an earlier rollback; symbolic availability of the {nd} data tokens",
                    symbolic=f"{nd} bools",
                    targets=t_merge,
                    finding_key=(lambda call: "equal-token-provenance-reattached") if strict else None,
                )
            )
    from harness.C18_file import file_specs

    out += file_specs(tier)
    return out
