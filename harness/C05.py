"""C05 — reuses the executor-level graph generator of C04 with the 'deterministic' oracle (see harness/exec_lib.py)."""

from __future__ import annotations

from harness import C04 as _base

LEVEL = "other"
PROP = "C05"
ORACLE = "deterministic"
T = _base.T


def specs(tier: str):
    return _base.gen(PROP, ORACLE, tier)


ASSUMPTIONS = list(_base.ASSUMPTIONS) + ["no fault is injected; the reference result is computed by the harness from the symbolic input values (so every explored schedule and job-completion order must produce that same value)"]
EXPLANATION = (
    "Same graphs and schedules as C04 without faults. Oracle: for EVERY explored interleaving (first K scheduling choices symbolic) and every "
    "solver-chosen job completion order the executor returns exactly the value the harness computes from the symbolic inputs, and every workflow "
    "output port carries each tag exactly once - hence the outputs cannot depend on the interleaving within the bound."
)
