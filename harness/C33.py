"""C33 — tag ordering and tag selection follow numeric component order.

Real code executed symbolically: streamflow.core.utils.compare_tags, get_tag,
get_job_step_name, get_job_tag and posixpath.join as used by ScheduleStep.
"""

from __future__ import annotations

import posixpath

from lib.runner import Spec, mk_source

LEVEL = "other"
EXPLANATION = (
    "Bounded symbolic checking of the tag kernels: tag components are z3 integers rendered "
    "with str(), so the solver owns every value (incl. 9/10, 99/100 digit-length boundaries)."
)
ASSUMPTIONS = [
    "tag components are non-negative decimal integers without sign or leading zeros (what str(int) renders; ScatterStep/LoopCombinator build tags this way)",
    "every tag starts from the root component produced by the engine ('0'); a depth-1 tag other than '0' is outside the claim for get_tag",
    "sys.intern is stubbed by the identity inside pathlib (C function that rejects symbolic strings; no observable semantics)",
    "step names are normalised absolute posix paths whose components are drawn from a fixed alphabet (plain, dash, dot-inside, space, unicode); '.'/'..'/empty components are outside the claim",
]

# ---------------------------------------------------------------- properties


def _tag(comps) -> str:
    out = str(comps[0])
    for c in comps[1:]:
        out = out + "." + str(c)
    return out


def _ref_cmp(c1, c2) -> int:
    if len(c1) != len(c2):
        return -1 if len(c1) < len(c2) else 1
    for x, y in zip(c1, c2):
        if x != y:
            return -1 if x < y else 1
    return 0


def prop_compare(c1, c2) -> bool:
    from streamflow.core.utils import compare_tags

    r = compare_tags(_tag(c1), _tag(c2))
    ref = _ref_cmp(c1, c2)
    if ref < 0:
        return r < 0
    if ref > 0:
        return r > 0
    return r == 0


def prop_antisym(c1, c2) -> bool:
    from streamflow.core.utils import compare_tags

    a = compare_tags(_tag(c1), _tag(c2))
    b = compare_tags(_tag(c2), _tag(c1))
    if a < 0:
        return b > 0
    if a > 0:
        return b < 0
    return b == 0 and _tag(c1) == _tag(c2)


def prop_trans(c1, c2, c3) -> bool:
    from streamflow.core.utils import compare_tags

    t1, t2, t3 = _tag(c1), _tag(c2), _tag(c3)
    if compare_tags(t1, t2) <= 0 and compare_tags(t2, t3) <= 0:
        return compare_tags(t1, t3) <= 0
    return True


def prop_sorted(comps_list) -> bool:
    """sorted(..., key=cmp_to_key(compare_tags)) as GatherStep/_process_output use it."""
    from functools import cmp_to_key

    from streamflow.core.utils import compare_tags

    tags = [_tag(c) for c in comps_list]
    out = sorted(tags, key=cmp_to_key(compare_tags))
    ref = sorted(comps_list, key=cmp_to_key(_ref_cmp))
    return out == [_tag(c) for c in ref]


class _T:
    def __init__(self, tag):
        self.tag = tag


def prop_get_tag(chain, depths, order) -> bool:
    """tokens whose tags are prefixes of `chain` with the given depths, in `order`."""
    from streamflow.core.utils import get_tag

    toks = [_T(_tag(chain[:d])) for d in depths]
    toks = [toks[i] for i in order]
    got = get_tag(toks)
    return got == _tag(chain[: max(depths)])


COMPONENTS = ["a", "b-c", "x.y", "s p", "é", "0", "0.1", "__job__"]


def prop_job_name(idx, ncomp, tagc) -> bool:
    import sys

    from streamflow.core.utils import get_job_step_name, get_job_tag

    # stub: pathlib calls sys.intern (C, rejects symbolic str); interning is
    # a memory optimisation with no observable semantics -> identity
    sys.intern = lambda s: s

    step = "/" + "/".join(COMPONENTS[i] for i in idx[:ncomp]) if ncomp else "/"
    tag = _tag(tagc)
    name = posixpath.join(step, tag)
    return get_job_step_name(name) == step and get_job_tag(name) == tag


# ---------------------------------------------------------------- obligations

IMPORTS = "from harness.C33 import *"
TARGETS_CMP = ("streamflow.core.utils.compare_tags",)


def specs(tier: str):
    hi = 99 if tier == "quick" else 999
    maxd = 3
    out = []

    def names(prefix, d):
        return [f"{prefix}{i}" for i in range(d)]

    def rng(vs):
        return [f"0 <= {v} <= {hi}" for v in vs]

    for d1 in range(1, maxd + 1):
        for d2 in range(1, maxd + 1):
            if tier == "quick" and d1 != d2 and (d1, d2) not in ((1, 2), (3, 2)):
                continue  # unequal depths never reach the component loop
            a, b = names("a", d1), names("b", d2)
            cond = 60 if hi == 99 else (600 if d1 == d2 == 3 else 200)
            out.append(
                Spec(
                    name=f"compare_d{d1}x{d2}",
                    group="compare_tags == numeric (depth, components) order",
                    source=mk_source(
                        IMPORTS,
                        ", ".join(f"{v}: int" for v in a + b),
                        rng(a + b),
                        f"prop_compare(({', '.join(a)},), ({', '.join(b)},))",
                    ),
                    cond=cond,
                    path=30,
                    bound=f"depths {d1}x{d2}, every component in 0..{hi}",
                    symbolic=f"{d1 + d2} tag components (z3 Int)",
                    targets=TARGETS_CMP,
                )
            )
    # antisymmetry / transitivity directly on the implementation (not via the reference)
    for d in (2,) if tier == "quick" else (2, 3):
        a, b, c = names("a", d), names("b", d), names("c", d)
        out.append(
            Spec(
                name=f"antisym_d{d}",
                group="total order laws",
                source=mk_source(
                    IMPORTS,
                    ", ".join(f"{v}: int" for v in a + b),
                    rng(a + b),
                    f"prop_antisym(({', '.join(a)},), ({', '.join(b)},))",
                ),
                cond=120 if d == 2 else 600,
                bound=f"depth {d}, components 0..{hi}",
                symbolic=f"{2 * d} components",
                targets=TARGETS_CMP,
            )
        )
    h3 = 99
    a, b, c = names("a", 2), names("b", 2), names("c", 2)
    out.append(
        Spec(
            name="trans_d2",
            group="total order laws",
            source=mk_source(
                IMPORTS,
                ", ".join(f"{v}: int" for v in a + b + c),
                [f"0 <= {v} <= {h3}" for v in a + b + c],
                f"prop_trans(({', '.join(a)},), ({', '.join(b)},), ({', '.join(c)},))",
            ),
            cond=300,
            bound=f"three depth-2 tags, components 0..{h3}",
            symbolic="6 components",
            targets=TARGETS_CMP,
        )
    )
    # sorting with cmp_to_key, as the gather / loop-output steps do
    k = 3
    vs = [f"v{i}" for i in range(k)]
    out.append(
        Spec(
            name="sorted_3x_d2",
            group="sorting by compare_tags == numeric sort",
            source=mk_source(
                IMPORTS,
                ", ".join(f"{v}: int" for v in vs),
                rng(vs),
                "prop_sorted([(0, v0), (0, v1), (0, v2)])",
            ),
            cond=200 if tier == "quick" else 900,
            bound=f"3 tags '0.<i>', i in 0..{hi} (duplicates allowed)",
            symbolic="3 components",
            targets=TARGETS_CMP + ("functools.cmp_to_key", "sorted"),
        )
    )
    # get_tag on prefix chains
    import itertools

    depth_sets = [(1, 2), (2, 3), (1, 3), (1, 2, 3), (2, 2), (3, 3, 1)]
    if tier != "quick":
        depth_sets += [(1, 2, 3, 4), (4, 2), (2, 4, 3)]
    for ds in depth_sets:
        m = max(ds)
        cs = [f"c{i}" for i in range(1, m)]
        orders = list(itertools.permutations(range(len(ds))))
        for oi, order in enumerate(orders):
            out.append(
                Spec(
                    name=f"get_tag_{'_'.join(map(str, ds))}_o{oi}",
                    group="get_tag picks the deepest tag of a prefix chain",
                    source=mk_source(
                        IMPORTS,
                        ", ".join(f"{v}: int" for v in cs),
                        rng(cs),
                        f"prop_get_tag((0, {', '.join(cs)},), {ds!r}, {order!r})",
                    ),
                    cond=60,
                    bound=f"prefix chain of depths {ds} given in order {order}; root component 0; others 0..{hi}",
                    symbolic=f"{m - 1} components",
                    targets=("streamflow.core.utils.get_tag",),
                )
            )
    # job name split
    for ncomp in (0, 1, 2, 3):
        for td in (1, 2, 3):
            if tier == "quick" and ncomp == 3 and td > 1:
                continue
            # n=3 is partitioned on the first component (one obligation each)
            firsts = [None] if ncomp < 3 or tier == "quick" else list(range(len(COMPONENTS)))
            for first in firsts:
                idx = [f"i{j}" for j in range(ncomp)]
                tc = [f"t{j}" for j in range(td)]
                sym_idx = idx if first is None else idx[1:]
                pre = [f"0 <= {v} < {len(COMPONENTS)}" for v in sym_idx] + rng(tc)
                idx_expr = ", ".join(idx if first is None else [str(first)] + idx[1:])
                out.append(
                    Spec(
                        name=f"job_name_n{ncomp}_t{td}" + ("" if first is None else f"_p{first}"),
                        group="job name splits back into step name and tag",
                        source=mk_source(
                            IMPORTS,
                            ", ".join(f"{v}: int" for v in sym_idx + tc),
                            pre,
                            f"prop_job_name([{idx_expr}], {ncomp}, ({', '.join(tc)},))",
                        ),
                        cond=400,
                        bound=f"step name of {ncomp} components from {COMPONENTS}"
                        + ("" if first is None else f" (partition: first component = {COMPONENTS[first]!r})")
                        + f", tag depth {td}, components 0..{hi}",
                        symbolic=f"{len(sym_idx)} alphabet indexes + {td} tag components",
                        targets=(
                            "streamflow.core.utils.get_job_step_name",
                            "streamflow.core.utils.get_job_tag",
                            "posixpath.join",
                        ),
                    )
                )
    return out
