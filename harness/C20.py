"""C20 — provenance graph operations keep the graph consistent.

Real code executed symbolically: streamflow.recovery.utils.DirectedGraph
(add, remove_nodes, remove_node, replace, successors, predecessors, in_degree,
out_degree, get_nodes), DirectedAcyclicGraph (get_sources, get_sinks,
promote_to_source) and, on top, GraphMapper.add / replace_token /
move_token_to_root.

The initial graph is a SYMBOLIC adjacency (one z3 Bool per possible edge) on
N nodes; every obligation then runs a tree of concrete operation skeletons
(arguments enumerated by the generator, prune flags symbolic) on the real
classes and on a tiny reference graph (set of nodes + set of edges) and compares
them through the public API after every operation.
"""

from __future__ import annotations

import itertools

from crosshair.tracers import NoTracing

from lib.runner import Spec, mk_source
from streamflow.core.workflow import Token
from streamflow.recovery.utils import DirectedAcyclicGraph, DirectedGraph, GraphMapper, ProvenanceToken

LEVEL = "other"
EXPLANATION = (
    "Bounded symbolic checking of the recovery graph classes against a set-of-nodes/set-of-edges reference: "
    "the adjacency matrix of the initial graph and the prune flag of every removal are solver variables, the operation "
    "skeletons (which operation on which node ids) are enumerated by the generator and grouped by their first operation."
)
ASSUMPTIONS = [
    "node ids are small ints (0..N-1 initially present, id N is the fresh node used by add/replace); the classes treat nodes as opaque hashables",
    "the initial graph is built through the real add(): add(i) for every node, then add(i, j) for every symbolic edge; "
    "family 'dag': edges i->j only for i<j (acyclic by construction), family 'cyc' (plain DirectedGraph): any i!=j, so cycles are inside",
    "self loops (add(u, u)) are outside the claim",
    "in family 'dag' an add(u, v) that would close a cycle is outside the claim (DirectedAcyclicGraph is only used on acyclic provenance); promote_to_source is only exercised on acyclic graphs",
    "remove_nodes / remove_node / promote_to_source / replace(old, ..) on a node that is NOT in the graph are outside the claim "
    "(the statement does not fix them); such a step ends the skeleton without a verdict. The generator drops skeletons for which this happens on every initial graph",
    "remove_nodes request lists have no duplicates; replace(x, x) is outside the claim",
    "replace(old, new) with `new` already present must raise ValueError (tests/test_recovery_utils.py::test_replace) and must leave the graph as it was",
    "the returned list of removed nodes is compared as a set (order and multiplicity are not fixed by the statement)",
    "GraphMapper layer: token t lives on its own port 'p<t>' with its own tag, tokens are plain Token objects with persistent ids >= 1, none available initially; "
    "replace_token / add(available instance) use a new instance with the same port and tag and a fresh id; an instance that is already available is kept by "
    "GraphMapper.add (modelled as a no-op); an operation on a token that has been dropped from the provenance graph is outside the claim; "
    "only dag_tokens (against the reference) and the successor/predecessor mirror of dcg_ports are asserted, not the bookkeeping dictionaries",
    "solver-side stub: CrossHair's replacement of the `set` constructor (a lazily combined linear-scan set meant for symbolic members) is bypassed for `set()` and "
    "`set(<concrete ints/strs>)`, which build the built-in set; node ids and port names are always concrete here (only adjacency bits and flags are symbolic, "
    "and they are branched on, never stored)",
    "the reference model and the comparisons handle only concrete values and run with the CrossHair tracer switched off; every call into streamflow runs under the tracer",
]

T_DG = (
    "streamflow.recovery.utils.DirectedGraph.add",
    "streamflow.recovery.utils.DirectedGraph.remove_nodes",
    "streamflow.recovery.utils.DirectedGraph.remove_node",
    "streamflow.recovery.utils.DirectedGraph.replace",
    "streamflow.recovery.utils.DirectedGraph.successors",
    "streamflow.recovery.utils.DirectedGraph.predecessors",
    "streamflow.recovery.utils.DirectedGraph.in_degree",
    "streamflow.recovery.utils.DirectedGraph.out_degree",
    "streamflow.recovery.utils.DirectedGraph.get_nodes",
)
T_DAG = T_DG + (
    "streamflow.recovery.utils.DirectedAcyclicGraph.get_sources",
    "streamflow.recovery.utils.DirectedAcyclicGraph.get_sinks",
    "streamflow.recovery.utils.DirectedAcyclicGraph.promote_to_source",
)
T_MAP = (
    "streamflow.recovery.utils.GraphMapper.add",
    "streamflow.recovery.utils.GraphMapper.replace_token",
    "streamflow.recovery.utils.GraphMapper.move_token_to_root",
    "streamflow.recovery.utils.GraphMapper.remove_port",
    "streamflow.recovery.utils.DirectedGraph.replace",
    "streamflow.recovery.utils.DirectedGraph.remove_nodes",
    "streamflow.recovery.utils.DirectedAcyclicGraph.promote_to_source",
)

# ---------------------------------------------------------------- solver-side set model for concrete ids


def _concrete_sets() -> None:
    """CrossHair replaces every `set(...)` call by a lazily combined linear-scan set (so that unhashable symbolic
    members work); each add/discard nests one more layer and a 4-node graph costs ~1 ms per API call. Every node id in
    this harness is a concrete int (port names: concrete str), for which the built-in set has exactly the semantics
    CrossHair models, so `set()` / `set(<concrete ints/strs>)` build the built-in set; anything else falls through to
    CrossHair's model."""
    import crosshair.core as core

    orig = core._PATCH_REGISTRATIONS.get(set)
    if orig is None or orig.__name__ == "_concrete_set":
        return

    def _concrete_set(*a):
        with NoTracing():
            if not a:
                return set()
            if len(a) == 1 and type(a[0]) in _PLAIN and all(type(x) in (int, str) for x in a[0]):
                return set(a[0])
        return orig(*a)

    core._PATCH_REGISTRATIONS[set] = _concrete_set


_PLAIN = (set, frozenset, list, tuple, type({}.keys()))
_concrete_sets()

# ---------------------------------------------------------------- reference model (concrete, runs untraced)


def _s(items=()):
    """A NATIVE set of concrete node ids. (Under CrossHair a call to `set(...)` builds a lazily combined,
    symbolic-capable set whose cost grows with every mutation; a comprehension over concrete items stays native.
    Results of the real code are copied with _s before they are compared.)"""
    return {x for x in items}


class Ref:
    """A plain graph: a set of nodes and a set of (u, v) edges."""

    def __init__(self):
        self.nodes = _s()
        self.edges = _s()

    def add(self, u, v=None):
        self.nodes.add(u)
        if v is not None:
            self.nodes.add(v)
            self.edges.add((u, v))

    def succ(self, n):
        return {v for (u, v) in self.edges if u == n}

    def pred(self, n):
        return {u for (u, v) in self.edges if v == n}

    def remove(self, requested, prune):
        """requested nodes plus, when pruning, every node whose successors were
        non-empty and have all been removed (transitively). Returns the removed set."""
        dead = _s(requested)
        grow = True if prune else False
        while grow:
            grow = False
            for p in sorted(self.nodes - dead):
                s = self.succ(p)
                if s and s <= dead:
                    dead.add(p)
                    grow = True
        self.nodes = self.nodes - dead
        self.edges = {(u, v) for (u, v) in self.edges if u not in dead and v not in dead}
        return dead

    def replace(self, old, new):
        self.nodes = {new if u == old else u for u in self.nodes}
        self.edges = {(new if u == old else u, new if v == old else v) for (u, v) in self.edges}

    def promote(self, n):
        """drop the in-edges of n, then the parents left without successors die (pruning)."""
        parents = self.pred(n)
        self.edges = {(u, v) for (u, v) in self.edges if v != n}
        return self.remove({p for p in parents if not self.succ(p)}, True)

    def reaches(self, a, b):
        seen, todo = [], [a]
        while todo:
            x = todo.pop()
            if x == b:
                return True
            if x not in seen:
                seen.append(x)
                todo.extend(self.succ(x))
        return False


def _edge_pairs(fam, n):
    if fam == "dag":
        return [(i, j) for i in range(n) for j in range(i + 1, n)]
    if fam == "loop":  # DirectedGraph with self-loops (legal there: only the DAG subclass rejects them)
        return [(i, j) for i in range(n) for j in range(n)]
    return [(i, j) for i in range(n) for j in range(n) if i != j]


def _build_ref(fam, n, bits):
    ref = Ref()
    for i in range(n):
        ref.add(i)
    for (i, j), b in zip(_edge_pairs(fam, n), bits):
        if b:
            ref.add(i, j)
    return ref


def _applicable(ref, op, dag) -> bool:
    """The precondition of one step (see ASSUMPTIONS)."""
    k = op[0]
    if k == "add":
        if len(op) == 3 and dag and op[2] in ref.nodes and op[1] in ref.nodes:
            return not ref.reaches(op[2], op[1])
        return True
    if k == "rm":
        return all(a in ref.nodes for a in op[1])
    if k in ("rep", "prom"):
        return op[1] in ref.nodes
    raise AssertionError(op)


def _ref_step(ref, op, prune):
    """Expected observation of one operation (same shape as _real_step returns)."""
    k = op[0]
    if k == "add":
        ref.add(*op[1:])
        return ("none",)
    if k == "rm":
        return ("removed", ref.remove(op[1], prune))
    if k == "rep":
        if op[2] in ref.nodes:
            return ("ValueError",)
        inherited = (ref.succ(op[1]), ref.pred(op[1]))
        ref.replace(op[1], op[2])
        # the new node has the edges of the old one (a self-loop old->old becomes new->new)
        renamed = tuple({op[2] if x == op[1] else x for x in part} for part in inherited)
        return ("replaced",) + inherited + renamed
    return ("promoted", ref.promote(op[1]), 0, True)


def _agree(obs, ref, dag) -> bool:
    """The observation of the real graph equals the reference, and its two views mirror each other."""
    if obs is None:
        return False
    nodes, ind, outd, succ, pred, empty, sources, sinks = obs
    if nodes != ref.nodes or _s(ind) != ref.nodes or _s(outd) != ref.nodes:
        return False
    for n in nodes:
        if succ[n] != ref.succ(n) or pred[n] != ref.pred(n):
            return False
        if ind[n] != len(pred[n]) or outd[n] != len(succ[n]):
            return False
        for m in succ[n]:  # mirror, from the real object's answers alone
            if m not in nodes or n not in pred[m]:
                return False
        for m in pred[n]:
            if m not in nodes or n not in succ[m]:
                return False
    if empty != (len(ref.nodes) == 0):
        return False
    if dag:
        if sources != {n for n in ref.nodes if not ref.pred(n)}:
            return False
        if sinks != {n for n in ref.nodes if not ref.succ(n)}:
            return False
    return True


# ---------------------------------------------------------------- the real code (runs under the tracer)


def _build_real(fam, n, bits):
    g = DirectedAcyclicGraph("g") if fam == "dag" else DirectedGraph("g")
    for i in range(n):
        g.add(i)
    for (i, j), b in zip(_edge_pairs(fam, n), bits):
        if b:
            g.add(i, j)
    return g


def _observe(g, dag):
    """Everything the public API shows, copied into native containers."""
    nodes = _s(g.get_nodes())
    ind = {k: v for k, v in g.in_degree().items()}
    outd = {k: v for k, v in g.out_degree().items()}
    succ, pred = {}, {}
    for n in nodes:
        if n not in ind or n not in outd:
            return None  # a node known to one view only
        succ[n] = _s(g.successors(n))
        pred[n] = _s(g.predecessors(n))
    sources = _s(g.get_sources()) if dag else None
    sinks = _s(g.get_sinks()) if dag else None
    return (nodes, ind, outd, succ, pred, g.empty(), sources, sinks)


def _real_step(g, op, prune):
    """Run one operation on the real graph; return what it showed."""
    k = op[0]
    if k == "add":
        r = g.add(op[1]) if len(op) == 2 else g.add(op[1], op[2])
        return ("none",) if r is None else ("value",)
    if k == "rm":
        if len(op[1]) == 1:
            return ("removed", _s(g.remove_node(op[1][0], prune_dead_end=prune)))
        return ("removed", _s(g.remove_nodes(list(op[1]), prune_dead_end=prune)))
    if k == "rep":
        old_s, old_p = _s(g.successors(op[1])), _s(g.predecessors(op[1]))
        try:
            r = g.replace(op[1], op[2])
        except ValueError:
            return ("ValueError",)
        if r is not None or not g.contains(op[2]):
            return ("value",)
        # direct form of the statement: the new node has exactly the edges the old one had
        return ("replaced", old_s, old_p, _s(g.successors(op[2])), _s(g.predecessors(op[2])))
    if k == "prom":
        got = _s(g.promote_to_source(op[1]))
        if not g.contains(op[1]):
            return ("lost",)
        # direct form of the statement: no incoming edge is left and the node is a source
        return ("promoted", got, len(g.predecessors(op[1])), op[1] in _s(g.get_sources()))
    raise AssertionError(op)


# ---------------------------------------------------------------- operation alphabets / skeleton trees (generator side)

_ALPHA: dict = {}
_STATIC: dict = {}
_TREES: dict = {}


def alphabet(fam: str, n: int, level: str) -> tuple:
    """Concrete operations. Node universe U = 0..n (n is the fresh id).

    level 'full'  : every add/remove_node/replace/promote over U, every ordered remove list of 2..n present nodes
    level 'mid'   : as full, but remove lists of >= 3 only ascending/descending
    level 'small' : operations over the nodes {0, n-1, fresh} only, remove lists of <= 2
    """
    key = (fam, n, level)
    if key in _ALPHA:
        return _ALPHA[key]
    U = list(range(n + 1))
    base = list(range(n))
    if level == "small":
        U = sorted({0, n - 1, n})
        base = [x for x in U if x < n]
    ops = []
    for u in U:
        ops.append(("add", u))
    for u in U:
        for v in U:
            if u != v or fam == "loop":
                ops.append(("add", u, v))
    for a in U:
        ops.append(("rm", (a,)))
    for a, b in itertools.permutations(base, 2):
        ops.append(("rm", (a, b)))
    if level == "full":
        for k in range(3, n + 1):
            for t in itertools.permutations(base, k):
                ops.append(("rm", t))
    elif level == "mid":
        for k in range(3, n + 1):
            for t in itertools.combinations(base, k):
                ops.append(("rm", t))
                ops.append(("rm", t[::-1]))
    for o in U:
        for w in U:
            if o != w:
                ops.append(("rep", o, w))
    if fam == "dag":
        for u in U:
            ops.append(("prom", u))
    _ALPHA[key] = tuple(ops)
    return _ALPHA[key]


def _levels(sched: str) -> tuple:
    """'full,mid' -> alphabet level of the 1st, 2nd, ... operation of a skeleton."""
    return tuple(sched.split(","))


def _static_ok(fam: str, n: int, skel: tuple) -> bool:
    """Generator-side filter: is there an initial graph / flag on which every step of the skeleton is applicable?
    (probes: empty graph, full graph, each single edge; a skeleton that fails all of them is not generated)"""
    key = (fam, n, skel)
    if key in _STATIC:
        return _STATIC[key]
    m = len(_edge_pairs(fam, n))
    probes = [(0,) * m, (1,) * m]
    probes += [tuple(1 if k == i else 0 for k in range(m)) for i in range(m)]
    dag = fam == "dag"
    res = False
    for bits in probes:
        for prune in (False, True):
            ref = _build_ref(fam, n, bits)
            ok = True
            for op in skel:
                if not _applicable(ref, op, dag):
                    ok = False
                    break
                _ref_step(ref, op, prune)
            if ok:
                res = True
                break
        if res:
            break
    _STATIC[key] = res
    return res


def skeleton_tree(fam: str, n: int, sched: str, lo: int, hi: int) -> tuple:
    """((op, subtree), ...): every generated skeleton whose first operation is alphabet(level 0)[lo:hi].

    Pure generator-side data; the generated harness file calls it at import time (outside the solver) so that the
    symbolic runs only walk it."""
    key = (fam, n, sched, lo, hi)
    if key in _TREES:
        return _TREES[key]
    levels = _levels(sched)

    def grow(prefix, candidates):
        out = []
        for op in candidates:
            skel = prefix + (op,)
            if not _static_ok(fam, n, skel):
                continue
            sub = grow(skel, alphabet(fam, n, levels[len(skel)])) if len(skel) < len(levels) else ()
            out.append((op, sub))
        return tuple(out)

    _TREES[key] = grow((), alphabet(fam, n, levels[0])[lo:hi])
    return _TREES[key]


def tree_size(tree) -> int:
    return sum(1 + tree_size(sub) for _, sub in tree)


# ---------------------------------------------------------------- the property


def _explain(*what) -> None:
    """Diagnostics for the native replay of a counterexample (silent under the solver)."""
    from crosshair.tracers import is_tracing

    if not is_tracing():
        print("C20 mismatch:", *what)


class _Flags:
    """prune flags, decided by the solver the first time a removal at that position needs one."""

    def __init__(self, flags):
        self.sym = flags
        self.val = [None] * len(flags)

    def __getitem__(self, i):
        if self.val[i] is None:
            self.val[i] = True if self.sym[i] else False
        return self.val[i]


def prop_tree(fam, n, bits, flags, lo, hi, sched) -> bool:
    """Every generated skeleton op_1 .. op_k (k <= len(sched)) whose first operation is alphabet(level 0)[lo:hi].

    After EVERY operation of every skeleton the real graph, as seen through its public API, must equal the
    reference (nodes, successors, predecessors, degrees, sources/sinks), its successor and predecessor views must
    mirror each other and the value returned by the operation must equal the reference's.
    """
    dag = fam == "dag"
    # one solver decision per adjacency bit; from here on the path carries a concrete graph
    bits = tuple([True if b else False for b in bits])
    flags = _Flags(flags)
    obs = _observe(_build_real(fam, n, bits), dag)
    with NoTracing():
        if not _agree(obs, _build_ref(fam, n, bits), dag):
            return False
        tree = skeleton_tree(fam, n, sched, lo, hi)
    return _run(fam, n, bits, flags, dag, (), tree)


def _run(fam, n, bits, flags, dag, prefix, tree) -> bool:
    depth = len(prefix)
    for op, sub in tree:
        g = _build_real(fam, n, bits)
        with NoTracing():
            ref = _build_ref(fam, n, bits)
        for i, p in enumerate(prefix):  # replay the prefix (checked one level up)
            f = flags[i] if p[0] == "rm" else None
            _real_step(g, p, f)
            with NoTracing():
                _ref_step(ref, p, f)
        with NoTracing():
            go = _applicable(ref, op, dag)
        if not go:
            continue
        f = flags[depth] if op[0] == "rm" else None
        got = _real_step(g, op, f)
        obs = _observe(g, dag)
        with NoTracing():
            want = _ref_step(ref, op, f)
            if got != want or not _agree(obs, ref, dag):
                _explain("initial edges", [e for e, b in zip(_edge_pairs(fam, n), bits) if b], "skeleton",
                         [_opstr(x) for x in prefix + (op,)], "prune flags", flags.val, "\n  returned", got, "expected", want,
                         "\n  graph (nodes, in_degree, out_degree, successors, predecessors, empty, sources, sinks)", obs,
                         "\n  expected nodes", ref.nodes, "edges", sorted(ref.edges))
                return False
        if sub and not _run(fam, n, bits, flags, dag, prefix + (op,), sub):
            return False
    return True


# ---------------------------------------------------------------- GraphMapper on top (token graph of the recovery planner)

MAP_KINDS = ("move", "reptok", "update")


def mapper_ops(n: int) -> tuple:
    """move(t): move_token_to_root(current id of t); reptok(t): replace_token(port of t, new instance of t);
    update(t): GraphMapper.add(available new instance of t) = replace_token + move_token_to_root + dag_tokens.add."""
    return tuple((k, t) for k in MAP_KINDS for t in range(n))


def _info(t, pid, available):
    tok = Token(value=t, tag="0." + str(t))
    tok.persistent_id = pid
    return ProvenanceToken(instance=tok, is_available=available, port_id=100 + t, port_name="p" + str(t))


def _build_mapper(n, bits):
    """One port and one tag per token, none available: built with the real GraphMapper.add."""
    m = GraphMapper(None)
    for t in range(n):
        m.add(_info(t, t + 1, False))
    for (i, j), b in zip(_edge_pairs("dag", n), bits):
        if b:
            m.add(_info(i, i + 1, False), _info(j, j + 1, False))
    return m


def _build_mapper_ref(n, bits):
    ref = Ref()
    for t in range(n):
        ref.add(t + 1)
    for (i, j), b in zip(_edge_pairs("dag", n), bits):
        if b:
            ref.add(i + 1, j + 1)
    return ref


def _mapper_real_step(m, cur, op, avail):
    k, t = op
    if k == "move":
        r = m.move_token_to_root(cur[t])
        return ("none",) if r is None else ("value",)
    new = cur[t] + 10
    if k == "reptok":
        r = m.replace_token("p" + str(t), _info(t, new, avail).instance, avail)
    else:
        r = m.add(_info(t, new, True))
    return ("none",) if r is None else ("value",)


def _mapper_ref_step(ref, cur, op, avail):
    """cur: logical token -> current persistent id; cur[("av", t)]: is that instance available."""
    k, t = op
    if k == "move":
        ref.promote(cur[t])
        return ("none",)
    if k == "update" and cur.get(("av", t), False):
        return ("none",)  # GraphMapper keeps an instance that is already available
    new = cur[t] + 10
    ref.replace(cur[t], new)
    if k == "update":
        ref.promote(new)
        ref.add(new)
    cur[t] = new
    cur[("av", t)] = True if k == "update" else avail
    return ("none",)


def _mirror(obs) -> bool:
    if obs is None:
        return False
    nodes, ind, outd, succ, pred = obs[:5]
    if _s(ind) != nodes or _s(outd) != nodes:
        return False
    for n in nodes:
        if ind[n] != len(pred[n]) or outd[n] != len(succ[n]):
            return False
        for x in succ[n]:
            if x not in nodes or n not in pred[x]:
                return False
        for x in pred[n]:
            if x not in nodes or n not in succ[x]:
                return False
    return True


def mapper_tree(n: int, depth: int, lo: int, hi: int) -> tuple:
    key = ("mapper", n, depth, lo, hi)
    if key in _TREES:
        return _TREES[key]
    ops = mapper_ops(n)

    def grow(prefix, candidates):
        out = []
        for op in candidates:  # whether a token is still in the graph is decided at run time
            skel = prefix + (op,)
            out.append((op, grow(skel, ops) if len(skel) < depth else ()))
        return tuple(out)

    _TREES[key] = grow((), ops[lo:hi])
    return _TREES[key]


def prop_mapper(n, bits, avail, lo, hi, depth) -> bool:
    """GraphMapper built by add(); then every skeleton of <= depth operations of mapper_ops(n) starting in [lo:hi].
    After every operation dag_tokens equals the reference and both dag_tokens and dcg_ports are mirror-consistent."""
    bits = tuple([True if b else False for b in bits])
    avail = True if avail else False
    m = _build_mapper(n, bits)
    obs, pobs = _observe(m.dag_tokens, True), _observe(m.dcg_ports, False)
    with NoTracing():
        if not _agree(obs, _build_mapper_ref(n, bits), True) or not _mirror(pobs):
            return False
        tree = mapper_tree(n, depth, lo, hi)
    return _run_mapper(n, bits, avail, (), tree)


def _run_mapper(n, bits, avail, prefix, tree) -> bool:
    for op, sub in tree:
        m = _build_mapper(n, bits)
        with NoTracing():
            ref = _build_mapper_ref(n, bits)
            cur = {t: t + 1 for t in range(n)}
            go = True
        for p in prefix:
            with NoTracing():
                go = go and cur[p[1]] in ref.nodes
            if not go:
                break
            _mapper_real_step(m, dict(cur), p, avail)
            with NoTracing():
                _mapper_ref_step(ref, cur, p, avail)
        with NoTracing():
            go = go and cur[op[1]] in ref.nodes  # the token is still part of the provenance graph
        if not go:
            continue
        got = _mapper_real_step(m, dict(cur), op, avail)
        obs, pobs = _observe(m.dag_tokens, True), _observe(m.dcg_ports, False)
        with NoTracing():
            want = _mapper_ref_step(ref, cur, op, avail)
            if got != want or not _agree(obs, ref, True) or not _mirror(pobs):
                _explain("token edges", [(i + 1, j + 1) for (i, j), b in zip(_edge_pairs("dag", n), bits) if b], "skeleton",
                         list(prefix + (op,)), "avail", avail, "\n  dag_tokens", obs, "\n  expected nodes", ref.nodes, "edges",
                         sorted(ref.edges), "\n  dcg_ports", pobs)
                return False
        if sub and not _run_mapper(n, bits, avail, prefix + (op,), sub):
            return False
    return True


# ---------------------------------------------------------------- obligations

IMPORTS = "from harness.C20 import *"


def _spec_tree(fam, n, sched, lo, hi, fixed, cond):
    """fixed: dict edge-index -> 0/1 concretely fixed by the generator (partition)."""
    levels = _levels(sched)
    pairs = _edge_pairs(fam, n)
    ops = alphabet(fam, n, levels[0])[lo:hi]
    names = [f"e{i}{j}" for (i, j) in pairs]
    sym = [nm for k, nm in enumerate(names) if k not in fixed]
    bits_expr = ", ".join(str(bool(fixed[k])) if k in fixed else nm for k, nm in enumerate(names))
    fl = [f"p{i}" for i in range(len(levels))]
    params = ", ".join(f"{v}: bool" for v in sym + fl)
    part = "".join(str(fixed[k]) for k in sorted(fixed))
    name = f"{fam}{n}_L{len(levels)}_{_opname(ops[0])}" + (f"__{_opname(ops[-1])}" if len(ops) > 1 else "")
    name += f"_part{part}" if fixed else ""
    cls = "DirectedAcyclicGraph" if fam == "dag" else "DirectedGraph"
    nsk = tree_size(skeleton_tree(fam, n, sched, lo, hi))
    return Spec(
        name=name,
        group=f"{cls}: skeletons of <= {len(levels)} operations on {n} nodes",
        source=mk_source(
            IMPORTS,
            params,
            [],
            f"prop_tree({fam!r}, {n}, ({bits_expr},), ({', '.join(fl)},), {lo}, {hi}, {sched!r})",
            extra=f"_TREE = skeleton_tree({fam!r}, {n}, {sched!r}, {lo}, {hi})  # built natively at import",
        ),
        cond=cond,
        path=120,
        bound=f"{cls}; initial graph = any subset of the {len(pairs)} edges "
        + ("i->j, i<j" if fam == "dag" else "i->j incl. self-loops i->i" if fam == "loop" else "i->j, i!=j")
        + f" on nodes 0..{n - 1}"
        + (f" (partition: edges {[names[k] for k in sorted(fixed)]} fixed to {part})" if fixed else "")
        + f"; first operation in [{', '.join(_opstr(o) for o in ops)}]"
        + (
            f"; then every continuation of up to {len(levels) - 1} more operation(s) drawn from alphabet level(s) "
            f"{list(levels[1:])} (harness.C20.alphabet)"
            if len(levels) > 1
            else ""
        )
        + f"; {nsk} skeletons; prune flag of each position symbolic",
        symbolic=f"{len(sym)} adjacency bits + {len(fl)} prune flags (z3 Bool)",
        targets=T_DAG if fam == "dag" else T_DG,
    )


def _opname(op) -> str:
    k = op[0]
    if k == "add":
        return "add" + "_".join(str(x) for x in op[1:])
    if k == "rm":
        return "rm" + "_".join(str(x) for x in op[1])
    if k == "rep":
        return f"rep{op[1]}to{op[2]}"
    return f"prom{op[1]}"


def _opstr(op) -> str:
    k = op[0]
    if k == "add":
        return "add(" + ", ".join(str(x) for x in op[1:]) + ")"
    if k == "rm":
        return ("remove_node(%d)" % op[1][0]) if len(op[1]) == 1 else f"remove_nodes({list(op[1])})"
    if k == "rep":
        return f"replace({op[1]}, {op[2]})"
    return f"promote_to_source({op[1]})"


def _chunks(fam, n, sched, target):
    """Split the first-operation alphabet into index ranges holding about `target` skeletons each."""
    ops = alphabet(fam, n, _levels(sched)[0])
    out, lo, acc = [], 0, 0
    for i in range(len(ops)):
        acc += tree_size(skeleton_tree(fam, n, sched, i, i + 1))
        if acc >= target:
            out.append((lo, i + 1))
            lo, acc = i + 1, 0
    if acc:
        out.append((lo, len(ops)))
    return out


def _spec_mapper(n, depth, lo, hi, cond):
    ops = mapper_ops(n)[lo:hi]
    names = [f"e{i}{j}" for (i, j) in _edge_pairs("dag", n)]
    params = ", ".join(f"{v}: bool" for v in names + ["avail"])
    return Spec(
        name=f"mapper{n}_L{depth}_{ops[0][0]}{ops[0][1]}__{ops[-1][0]}{ops[-1][1]}",
        group=f"GraphMapper: skeletons of <= {depth} operations on {n} tokens",
        source=mk_source(
            IMPORTS,
            params,
            [],
            f"prop_mapper({n}, ({', '.join(names)},), avail, {lo}, {hi}, {depth})",
            extra=f"_TREE = mapper_tree({n}, {depth}, {lo}, {hi})",
        ),
        cond=cond,
        path=120,
        bound=f"GraphMapper over {n} tokens (one port and tag each, none available), provenance edges = any subset of i->j, i<j; "
        f"first operation in {[k + '(' + str(t) + ')' for k, t in ops]}, then up to {depth - 1} more of mapper_ops({n}); "
        f"{tree_size(mapper_tree(n, depth, lo, hi))} skeletons; availability flag of the replacing token symbolic",
        symbolic=f"{len(names)} adjacency bits + 1 availability flag (z3 Bool)",
        targets=T_MAP,
    )


def specs(tier: str):
    out = []
    if tier == "quick":
        # (family, nodes, alphabet level per position, skeletons per obligation, #adjacency bits fixed per partition, cond)
        plan = [
            ("dag", 4, "mid", 18, 0, 400),
            ("cyc", 3, "full", 20, 0, 400),
            ("dag", 3, "small,small", 60, 0, 400),
            ("loop", 2, "full", 20, 0, 400),
            ("loop", 3, "small", 12, 0, 400),
        ]
        mplan = [(4, 1, 4, 400), (3, 2, 3, 400)]
    else:
        plan = [
            ("dag", 5, "mid", 10, 0, 3000),
            ("dag", 4, "full", 55, 0, 3000),
            ("dag", 4, "mid,small", 110, 0, 3000),
            ("dag", 3, "full,full", 800, 0, 3000),
            ("dag", 3, "small,small,small", 700, 0, 3000),
            ("cyc", 3, "full,small", 110, 0, 3000),
            ("cyc", 4, "small", 20, 3, 3000),
            ("loop", 2, "full,full", 200, 0, 3000),
            ("loop", 3, "full", 10, 0, 3000),
        ]
        mplan = [(4, 2, 2, 3000)]
    for fam, n, sched, target, nfix, cond in plan:
        for lo, hi in _chunks(fam, n, sched, target):
            for combo in itertools.product((0, 1), repeat=nfix):
                out.append(_spec_tree(fam, n, sched, lo, hi, dict(enumerate(combo)), cond))
    for n, depth, per, cond in mplan:
        k = len(mapper_ops(n))
        for lo in range(0, k, per):
            out.append(_spec_mapper(n, depth, lo, min(k, lo + per), cond))
    return out
