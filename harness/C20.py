"""C20 — provenance graph operations keep the graph consistent.

Real code executed symbolically: streamflow.recovery.utils.DirectedGraph
(add, remove_nodes, remove_node, replace, successors, predecessors, in_degree,
out_degree, get_nodes), DirectedAcyclicGraph (get_sources, get_sinks,
promote_to_source) and, on top, GraphMapper.add / replace_token /
move_token_to_root.

The initial graph is a SYMBOLIC adjacency (one z3 Bool per possible edge) on
N nodes; every obligation then runs a tree of concrete operation skeletons
(arguments enumerated by the generator, prune flags symbolic) on the real
classes and on a tiny reference graph (set of nodes + set of edges) and compares
them through the public API after every operation.
"""

from __future__ import annotations

import functools
import itertools

from lib.runner import Spec, mk_source

LEVEL = "other"
EXPLANATION = (
    "Bounded symbolic checking of the recovery graph classes against a set-of-nodes/set-of-edges reference: "
    "the adjacency matrix of the initial graph and the prune flag of every removal are solver variables, the operation "
    "skeletons (which operation on which node ids) are enumerated by the generator and grouped by their first operation."
)
ASSUMPTIONS = [
    "node ids are small ints (0..N-1 initially present, id N is the fresh node used by add/replace); the classes treat nodes as opaque hashables",
    "the initial graph is built through the real add(): add(i) for every node, then add(i, j) for every symbolic edge; "
    "family 'dag': edges i->j only for i<j (acyclic by construction), family 'cyc' (plain DirectedGraph): any i!=j, so cycles are inside",
    "self loops (add(u, u)) are outside the claim",
    "in family 'dag' an add(u, v) that would close a cycle is outside the claim (DirectedAcyclicGraph is only used on acyclic provenance); promote_to_source is only exercised on acyclic graphs",
    "remove_nodes / remove_node / promote_to_source / replace(old, ..) on a node that is NOT in the graph are outside the claim "
    "(the statement does not fix them); such a step ends the skeleton without a verdict. The generator drops skeletons for which this happens on every initial graph",
    "remove_nodes request lists have no duplicates; replace(x, x) is outside the claim",
    "replace(old, new) with `new` already present must raise ValueError (tests/test_recovery_utils.py::test_replace) and must leave the graph as it was",
    "the returned list of removed nodes is compared as a set (order and multiplicity are not fixed by the statement)",
    "GraphMapper layer: every token lives on its own port with its own tag (get_equal_token never merges), tokens are plain Token objects with a persistent_id; "
    "only dag_tokens (against the reference) and the successor/predecessor mirror of dcg_ports are asserted, not the bookkeeping dictionaries",
]

T_DG = (
    "streamflow.recovery.utils.DirectedGraph.add",
    "streamflow.recovery.utils.DirectedGraph.remove_nodes",
    "streamflow.recovery.utils.DirectedGraph.remove_node",
    "streamflow.recovery.utils.DirectedGraph.replace",
    "streamflow.recovery.utils.DirectedGraph.successors",
    "streamflow.recovery.utils.DirectedGraph.predecessors",
    "streamflow.recovery.utils.DirectedGraph.in_degree",
    "streamflow.recovery.utils.DirectedGraph.out_degree",
    "streamflow.recovery.utils.DirectedGraph.get_nodes",
)
T_DAG = T_DG + (
    "streamflow.recovery.utils.DirectedAcyclicGraph.get_sources",
    "streamflow.recovery.utils.DirectedAcyclicGraph.get_sinks",
    "streamflow.recovery.utils.DirectedAcyclicGraph.promote_to_source",
)
T_MAP = (
    "streamflow.recovery.utils.GraphMapper.add",
    "streamflow.recovery.utils.GraphMapper.replace_token",
    "streamflow.recovery.utils.GraphMapper.move_token_to_root",
    "streamflow.recovery.utils.GraphMapper.remove_port",
    "streamflow.recovery.utils.DirectedGraph.replace",
    "streamflow.recovery.utils.DirectedGraph.remove_nodes",
    "streamflow.recovery.utils.DirectedAcyclicGraph.promote_to_source",
)

# ---------------------------------------------------------------- reference model


class Ref:
    """A plain graph: a set of nodes and a set of (u, v) edges."""

    def __init__(self):
        self.nodes = set()
        self.edges = set()

    def add(self, u, v=None):
        self.nodes.add(u)
        if v is not None:
            self.nodes.add(v)
            self.edges.add((u, v))

    def succ(self, n):
        return {v for (u, v) in self.edges if u == n}

    def pred(self, n):
        return {u for (u, v) in self.edges if v == n}

    def remove(self, requested, prune):
        """requested nodes plus, when pruning, every node whose successors were
        non-empty and have all been removed (transitively). Returns the removed set."""
        dead = set(requested)
        grow = True if prune else False
        while grow:
            grow = False
            for p in sorted(self.nodes - dead):
                s = self.succ(p)
                if s and s <= dead:
                    dead.add(p)
                    grow = True
        self.nodes -= dead
        self.edges = {(u, v) for (u, v) in self.edges if u not in dead and v not in dead}
        return dead

    def replace(self, old, new):
        self.nodes.remove(old)
        self.nodes.add(new)
        self.edges = {(new if u == old else u, new if v == old else v) for (u, v) in self.edges}

    def promote(self, n):
        """drop the in-edges of n, then the parents left without successors die (pruning)."""
        parents = self.pred(n)
        self.edges -= {(p, n) for p in parents}
        return self.remove({p for p in parents if not self.succ(p)}, True)

    def reaches(self, a, b):
        seen, todo = set(), [a]
        while todo:
            x = todo.pop()
            if x == b:
                return True
            if x not in seen:
                seen.add(x)
                todo.extend(self.succ(x))
        return False


# ---------------------------------------------------------------- comparison through the public API


def _same(g, ref, dag) -> bool:
    nodes = g.get_nodes()
    if nodes != ref.nodes:
        return False
    ind, outd = g.in_degree(), g.out_degree()
    if set(ind.keys()) != ref.nodes or set(outd.keys()) != ref.nodes:
        return False
    for n in ref.nodes:
        s, p = g.successors(n), g.predecessors(n)
        if s != ref.succ(n) or p != ref.pred(n):
            return False
        if ind[n] != len(p) or outd[n] != len(s):
            return False
        # the two views mirror each other (asked from the real object alone)
        for m in s:
            if not g.contains(m) or n not in g.predecessors(m):
                return False
        for m in p:
            if not g.contains(m) or n not in g.successors(m):
                return False
    if g.empty() != (len(ref.nodes) == 0):
        return False
    if dag:
        if g.get_sources() != {n for n in ref.nodes if not ref.pred(n)}:
            return False
        if g.get_sinks() != {n for n in ref.nodes if not ref.succ(n)}:
            return False
    return True


def _edge_pairs(fam, n):
    if fam == "dag":
        return [(i, j) for i in range(n) for j in range(i + 1, n)]
    return [(i, j) for i in range(n) for j in range(n) if i != j]


def _build(fam, n, bits):
    from streamflow.recovery.utils import DirectedAcyclicGraph, DirectedGraph

    g = DirectedAcyclicGraph("g") if fam == "dag" else DirectedGraph("g")
    ref = Ref()
    for i in range(n):
        g.add(i)
        ref.add(i)
    for (i, j), b in zip(_edge_pairs(fam, n), bits):
        if b:
            g.add(i, j)
            ref.add(i, j)
    return g, ref


def _applicable(ref, op, dag) -> bool:
    """The precondition of one step (see ASSUMPTIONS)."""
    k = op[0]
    if k == "add":
        if len(op) == 3 and dag and op[2] in ref.nodes and op[1] in ref.nodes:
            return not ref.reaches(op[2], op[1])
        return True
    if k == "rm":
        return all(a in ref.nodes for a in op[1])
    if k == "rep":
        return op[1] in ref.nodes
    if k == "prom":
        return op[1] in ref.nodes
    raise AssertionError(op)


def _step(g, ref, op, prune, check=True) -> bool:
    """Run one operation on the real graph and on the reference; compare results."""
    k = op[0]
    if k == "add":
        if len(op) == 2:
            r = g.add(op[1])
            ref.add(op[1])
        else:
            r = g.add(op[1], op[2])
            ref.add(op[1], op[2])
        return r is None
    if k == "rm":
        if len(op[1]) == 1:
            got = g.remove_node(op[1][0], prune_dead_end=prune)
        else:
            got = g.remove_nodes(list(op[1]), prune_dead_end=prune)
        want = ref.remove(op[1], prune)
        return set(got) == want
    if k == "rep":
        if op[2] in ref.nodes:
            try:
                g.replace(op[1], op[2])
            except ValueError:
                return True  # refused; the caller checks that nothing changed
            return False
        # direct form of the statement: the new node inherits exactly the edges of the old one
        old_s, old_p = g.successors(op[1]), g.predecessors(op[1])
        r = g.replace(op[1], op[2])
        ref.replace(op[1], op[2])
        if g.successors(op[2]) != old_s or g.predecessors(op[2]) != old_p:
            return False
        return r is None
    if k == "prom":
        got = g.promote_to_source(op[1])
        want = ref.promote(op[1])
        # direct form of the statement: no incoming edge is left, the node itself survives
        if len(g.predecessors(op[1])) != 0 or op[1] not in g.get_sources():
            return False
        return set(got) == want
    raise AssertionError(op)


# ---------------------------------------------------------------- operation alphabets


@functools.lru_cache(maxsize=None)
def alphabet(fam: str, n: int, level: str) -> tuple:
    """Concrete operations. Node universe U = 0..n (n is the fresh id).

    level 'full'  : every add/remove_node/replace/promote over U, every ordered remove list of 2 or 3 present nodes
    level 'mid'   : as full, but 3-element remove lists only ascending/descending
    level 'small' : operations over the nodes {0, 1, n-1, fresh}, remove lists of <= 2
    """
    U = list(range(n + 1))
    base = list(range(n))
    if level == "small":
        U = sorted({0, 1, n - 1, n})
        base = [x for x in U if x < n]
    ops = []
    for u in U:
        ops.append(("add", u))
    for u in U:
        for v in U:
            if u != v:
                ops.append(("add", u, v))
    for a in U:
        ops.append(("rm", (a,)))
    for a, b in itertools.permutations(base, 2):
        ops.append(("rm", (a, b)))
    if level == "full":
        for t in itertools.permutations(base, 3):
            ops.append(("rm", t))
    elif level == "mid":
        for t in itertools.combinations(base, 3):
            ops.append(("rm", t))
            ops.append(("rm", t[::-1]))
    for o in U:
        for w in U:
            if o != w:
                ops.append(("rep", o, w))
    if fam == "dag":
        for u in U:
            ops.append(("prom", u))
    return tuple(ops)


def _levels(sched: str) -> tuple:
    """'full,mid' -> alphabet level of the 1st, 2nd, ... operation of a skeleton."""
    return tuple(sched.split(","))


@functools.lru_cache(maxsize=None)
def _static_ok(fam: str, n: int, skel: tuple) -> bool:
    """Generator-side filter: is there ANY initial graph / flags on which every step of the skeleton is applicable?"""
    m = len(_edge_pairs(fam, n))
    probes = [(0,) * m, (1,) * m]
    probes += [tuple(1 if k == i else 0 for k in range(m)) for i in range(m)]
    dag = fam == "dag"
    for bits in probes:
        for prune in (False, True):
            ref = Ref()
            for i in range(n):
                ref.add(i)
            for (i, j), b in zip(_edge_pairs(fam, n), bits):
                if b:
                    ref.add(i, j)
            ok = True
            for op in skel:
                if not _applicable(ref, op, dag):
                    ok = False
                    break
                _ref_step(ref, op, prune)
            if ok:
                return True
    return False


def _ref_step(ref, op, prune):
    k = op[0]
    if k == "add":
        ref.add(*op[1:])
    elif k == "rm":
        ref.remove(op[1], prune)
    elif k == "rep":
        if op[2] not in ref.nodes:
            ref.replace(op[1], op[2])
    else:
        ref.promote(op[1])


# ---------------------------------------------------------------- the property


def prop_tree(fam, n, bits, flags, first, sched) -> bool:
    """Every skeleton op_1 .. op_k (k <= len(sched)) that starts with alphabet(first level)[first].

    After EVERY operation of every skeleton the real graph must equal the reference
    (nodes, successors, predecessors, degrees, sources/sinks, mirror) and the value
    returned by the operation must equal the reference's.
    """
    levels = _levels(sched)
    dag = fam == "dag"
    g, ref = _build(fam, n, bits)
    if not _same(g, ref, dag):
        return False
    op1 = alphabet(fam, n, levels[0])[first]
    return _run(fam, n, bits, flags, levels, dag, (), (op1,))


def _run(fam, n, bits, flags, levels, dag, prefix, candidates) -> bool:
    depth = len(prefix)
    for op in candidates:
        skel = prefix + (op,)
        if not _static_ok(fam, n, skel):
            continue
        g, ref = _build(fam, n, bits)
        for i, p in enumerate(prefix):  # replay the prefix (already checked one level up)
            _step(g, ref, p, flags[i])
        if not _applicable(ref, op, dag):
            continue
        if not _step(g, ref, op, flags[depth]):
            return False
        if not _same(g, ref, dag):
            return False
        if depth + 1 < len(levels):
            if not _run(fam, n, bits, flags, levels, dag, skel, alphabet(fam, n, levels[depth + 1])):
                return False
    return True


# ---------------------------------------------------------------- obligations

IMPORTS = "from harness.C20 import *"


def _spec_tree(fam, n, sched, first, fixed, cond):
    """fixed: dict edge-index -> 0/1 concretely fixed by the generator (partition)."""
    levels = _levels(sched)
    pairs = _edge_pairs(fam, n)
    op1 = alphabet(fam, n, levels[0])[first]
    names = [f"e{i}{j}" for (i, j) in pairs]
    sym = [nm for k, nm in enumerate(names) if k not in fixed]
    bits_expr = ", ".join(str(bool(fixed[k])) if k in fixed else nm for k, nm in enumerate(names))
    fl = [f"p{i}" for i in range(len(levels))]
    params = ", ".join(f"{v}: bool" for v in sym + fl)
    part = "".join(str(fixed[k]) for k in sorted(fixed))
    opname = _opname(op1)
    name = f"{fam}{n}_L{len(levels)}_{opname}" + (f"_part{part}" if fixed else "")
    cls = "DirectedAcyclicGraph" if fam == "dag" else "DirectedGraph"
    return Spec(
        name=name,
        group=f"{cls}: skeletons of <= {len(levels)} operations on {n} nodes",
        source=mk_source(
            IMPORTS,
            params,
            [],
            f"prop_tree({fam!r}, {n}, ({bits_expr},), ({', '.join(fl)},), {first}, {sched!r})",
        ),
        cond=cond,
        path=60,
        bound=f"{cls}; initial graph = any subset of the {len(pairs)} edges "
        + ("i->j, i<j" if fam == "dag" else "i->j, i!=j")
        + f" on nodes 0..{n - 1}"
        + (f" (partition: edges {[names[k] for k in sorted(fixed)]} fixed to {part})" if fixed else "")
        + f"; first operation {_opstr(op1)}; then every continuation of up to {len(levels) - 1} more operation(s) "
        f"drawn from alphabet level(s) {levels[1:]} (see harness.C20.alphabet); prune flag of each position symbolic",
        symbolic=f"{len(sym)} adjacency bits + {len(fl)} prune flags (z3 Bool)",
        targets=T_DAG if fam == "dag" else T_DG,
    )


def _opname(op) -> str:
    k = op[0]
    if k == "add":
        return "add" + "_".join(str(x) for x in op[1:])
    if k == "rm":
        return "rm" + "_".join(str(x) for x in op[1])
    if k == "rep":
        return f"rep{op[1]}to{op[2]}"
    return f"prom{op[1]}"


def _opstr(op) -> str:
    k = op[0]
    if k == "add":
        return "add(" + ", ".join(str(x) for x in op[1:]) + ")"
    if k == "rm":
        return ("remove_node(%d, prune)" % op[1][0]) if len(op[1]) == 1 else f"remove_nodes({list(op[1])}, prune)"
    if k == "rep":
        return f"replace({op[1]}, {op[2]})"
    return f"promote_to_source({op[1]})"


def specs(tier: str):
    out = []
    if tier == "quick":
        plan = [("dag", 4, "mid,mid", 0, 200), ("cyc", 3, "full,full", 0, 200)]
    else:
        plan = [("dag", 5, "full,small", 2, 900), ("dag", 4, "mid,small,small", 0, 900), ("cyc", 4, "mid,small", 4, 900)]
    for fam, n, sched, nfix, cond in plan:
        lv = _levels(sched)
        for first, op in enumerate(alphabet(fam, n, lv[0])):
            if not _static_ok(fam, n, (op,)):
                continue
            for combo in itertools.product((0, 1), repeat=nfix):
                out.append(_spec_tree(fam, n, sched, first, dict(enumerate(combo)), cond))
    return out
