"""C11 — reuses the scheduler history generator of C10 with the 'accounting' oracle (see harness/sched_lib.py)."""

from __future__ import annotations

from harness import C10 as _base

LEVEL = "other"
PROP = "C11"
ORACLE = "accounting"
ASSUMPTIONS = list(_base.ASSUMPTIONS)
T = _base.T


def specs(tier: str):
    return _base.gen(PROP, ORACLE, tier)


EXPLANATION = (
    "Same histories as C10 (real DefaultScheduler on a deterministic loop, canonical prefixes + solver-chosen operations, "
    "symbolic exact amounts). Oracle: after every operation the scheduler's own ledger (hardware_locations) has no negative "
    "cores/memory/storage and the C10 capacity bound holds; every history is then driven to completion (FIREABLE->RUNNING->COMPLETED "
    "for every allocated job, duplicated and out-of-order terminal notifications are part of the symbolic operations) and the ledger must show "
    "exactly 0 cores, 0 memory and, as storage, exactly the sum of the measured usages returned by the get_storage_usages stub."
)
