"""C11 — reuses the scheduler history generator of C10 with the 'accounting' oracle (see harness/sched_lib.py)."""

from __future__ import annotations

from harness import C10 as _base

LEVEL = "other"
PROP = "C11"
ORACLE = "accounting"
ASSUMPTIONS = list(_base.ASSUMPTIONS)
T = _base.T


def prop_concurrent_notify(cap, ra, rb, s1, s2, hold) -> bool:
    """Two notifications for the SAME running job are issued from two tasks (a duplicated terminal
    notification, or FAILED from the step and ROLLBACK from the failure manager) while the scheduler's
    lock is or is not held by another job's scheduling that is suspended in the connector (`hold`);
    afterwards everything is driven to completion: the ledger is never negative and ends at zero."""
    from harness import sched_lib as S
    from streamflow.core.workflow import Status

    codes = [Status.COMPLETED, Status.FAILED, Status.CANCELLED, Status.ROLLBACK]
    st1 = st2 = None
    for i in range(len(codes)):
        if s1 == i:
            st1 = codes[i]
        if s2 == i:
            st2 = codes[i]
    if st1 is None or st2 is None:
        return True
    w = S.World("one", [(cap, 64, 64)])
    a, b = "/s/0.0", "/s/0.1"
    try:
        with w.loop as loop:
            for j, r in ((a, ra), (b, rb)):
                w.reqs[j] = (r, 1, 1)
                w.binding[j] = ("d",)
            w.do(a, "S")
            if w.waiting(a):
                return True  # a does not fit: nothing to release
            w.do(a, "R")
            conn = w.ctx.deployment_manager.get_connector("d")
            gate = loop.create_future()
            orig = conn.get_available_locations

            async def held(service=None):
                if hold:
                    await gate
                return await orig(service=service)

            conn.get_available_locations = held
            w.do(b, "S")  # with `hold`: suspended inside the scheduler's critical section
            t1 = loop.create_task(w.sched.notify_status(a, st1))
            t2 = loop.create_task(w.sched.notify_status(a, st2))
            loop.run_until_quiescent()
            if not w.ok_accounting():
                return False
            if not gate.done():
                gate.set_result(None)
            loop.run_until_quiescent()
            if not (t1.done() and t2.done()):
                return False
            t1.result()
            t2.result()
            if not (w.ok_accounting() and w.ok_capacity()):
                return False
            # drive everything to completion
            for j in (a, b):
                if w.waiting(j):
                    continue
                if w.status(j) in (S.FIREABLE, S.RUNNING):
                    w.do(j, "R")
                    w.do(j, "C")
                    if not w.ok_accounting():
                        return False
            if w.waiting(b):
                return w.ok_accounting()
            return w.ok_accounting(final=True)
    finally:
        w.close()


def specs(tier: str):
    from lib.runner import Spec, mk_source

    out = _base.gen(PROP, ORACLE, tier)
    out.append(
        Spec(
            name="concurrent_notify",
            group="C11: notifications of one job issued from two tasks, with the scheduler lock held or free",
            source=mk_source(
                "from harness.C11 import *",
                "cap: int, ra: int, rb: int, s1: int, s2: int, hold: bool",
                ["0 <= cap <= 64", "0 <= ra <= 64", "0 <= rb <= 64", "0 <= s1 <= 3", "0 <= s2 <= 3"],
                "prop_concurrent_notify(cap, ra, rb, s1, s2, hold)",
            ),
            cond=900 if tier == "quick" else 3000,
            path=90,
            bound="one hardware location (cores symbolic 0..64), job a RUNNING (cores 0..64), job b being scheduled (suspended inside the scheduler's critical section in connector.get_available_locations, or not: symbolic); "
            "two concurrent notify_status(a, .) tasks with statuses from COMPLETED/FAILED/CANCELLED/ROLLBACK (symbolic pair; a RUNNING notification after a terminal one is not a caller's lifecycle); then everything driven to completion",
            symbolic="3 amounts, 2 status codes, 1 bool",
            targets=T,
        )
    )
    return out


EXPLANATION = (
    "Same histories as C10 (real DefaultScheduler on a deterministic loop, canonical prefixes + solver-chosen operations, "
    "symbolic exact amounts). Oracle: after every operation the scheduler's own ledger (hardware_locations) has no negative "
    "cores/memory/storage and the C10 capacity bound holds; every history is then driven to completion (FIREABLE->RUNNING->COMPLETED "
    "for every allocated job, duplicated and out-of-order terminal notifications are part of the symbolic operations) and the ledger must show "
    "exactly 0 cores, 0 memory and, as storage, exactly the sum of the measured usages returned by the get_storage_usages stub. "
    "An extra obligation issues two notifications of one running job from two concurrent tasks while another job's scheduling holds (or does not hold) "
    "the scheduler lock, suspended in the connector: the reservation is released exactly once."
)
