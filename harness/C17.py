"""C17 — retries are bounded and exhausted retries fail the workflow.

Real code executed symbolically: streamflow.core.recovery.recoverable (the decorator
around every job-running coroutine), RollbackFailureManager.recover /
_do_handle_failure / _synchronize_workflows (rollback branch) / _update_request /
is_recovering / get_request, RecoveryRequest, DummyFailureManager.recover.

Kernel level. The real RollbackFailureManager._recover rebuilds a recovery workflow
from the sqlite database (WorkflowBuilder, ProvenanceGraph, StreamFlowExecutor) and is
NOT executed here: it is overridden (KernelRollbackFailureManager._recover) by a stub that performs exactly the two
things of `_recover` that matter for the retry counter:

  1. under the failed job's RecoveryRequest.lock it calls the REAL
     `_synchronize_workflows` for that request; the scheduler reports the job in
     Status.RECOVERY (notified by the real `recover` just before), so the real
     `is_recovering` is False and the real `_update_request(job)` runs: this is the only
     place where `version` is incremented / FailureHandlingException is raised;
  2. "executor.run()" of the recovery workflow = the failed step runs the job once more
     through the same @recoverable coroutine (mirror of ExecuteStep._run_job: notify
     RUNNING, run, notify COMPLETED/FAILED/CANCELLED, swallow the exception); a failed
     step makes the executor raise a fresh WorkflowExecutionException (wrap=True, what
     StreamFlowExecutor.run does) — or, wrap=False, the inner exception is passed up
     unchanged (plain "re-invoke the decorated function once").

Hence a failure of the re-run is handled by the same decorator -> same failure
manager -> recursion, exactly as in the real flow. The bound read from the code (and
asserted by tests/test_recovery.py::test_exceed_max_retries_poison_pill: the job fails
at every attempt, the workflow raises and `get_request(job).version == MAX_RETRY`):
RecoveryRequest.version starts at 1 and counts executions; a retry needs
`version < max_retries`; so a job is executed at most max(1, max_retries) times.
"""

from __future__ import annotations

import asyncio

from lib.runner import Spec, mk_source

LEVEL = "other"
EXPLANATION = (
    "Two lemmas. STEP: the real RollbackFailureManager._update_request is run from an ARBITRARY counter state "
    "(version and max_retries are solver integers, max_retries possibly None): either version' = version+1 <= max_retries "
    "and exactly one ROLLBACK notification was sent for that job, or FailureHandlingException is raised with the state unchanged "
    "and nothing notified; other jobs' counters are untouched. Since version starts at 1 (checked on the real RecoveryRequest) and every "
    "re-execution is preceded by one successful _update_request, a job runs at most max(1, max_retries) times. "
    "FLOW: a @recoverable coroutine of a Step whose body fails according to a solver-chosen pattern (i-th execution succeeds / fails / "
    "raises an unrecoverable exception / is cancelled) is driven through the real recover -> _do_handle_failure -> _synchronize_workflows -> "
    "_update_request chain on a deterministic event loop with max_retries a solver integer; the number of executions, the outcome "
    "(returns iff an execution within the bound succeeded, raises otherwise), the final version and the ROLLBACK notifications are compared "
    "with a ten-line reference loop; a step budget turns any loop into a violation. With DummyFailureManager the first failure propagates "
    "as the same exception object after exactly one execution."
)
ASSUMPTIONS = [
    "RollbackFailureManager._recover (WorkflowBuilder/ProvenanceGraph/StreamFlowExecutor over sqlite) is replaced by a stub that (1) takes the failed job's RecoveryRequest.lock and calls the REAL _synchronize_workflows for that request, (2) re-runs the failed job once through the same @recoverable coroutine as ExecuteStep._run_job does (notify RUNNING, run, notify final status, swallow the exception; symbolic variant notify=False: no status notification around the run, as ScheduleStep._schedule / TransferStep._run_transfer, so the allocation keeps the status recovery left) and raises a fresh WorkflowExecutionException when that run failed (StreamFlowExecutor.run behaviour; variant wrap=False passes the inner exception up unchanged). Real re-runs of a rebuilt workflow are outside the claim",
    "only the failed job's own RecoveryRequest is synchronised (single failing job; no other job of the recovery workflow is rolled back concurrently), so the 'job is currently executing elsewhere' branch of _synchronize_workflows is not exercised",
    "stub scheduler: notify_status records (job, status) and sets the allocation status; get_allocation returns that allocation",
    "stub Step (minimal subclass of streamflow.core.workflow.Step) and real Job; StubContext/StubDatabase; DetLoop instead of the selector loop; logging disabled",
    "retry_delay is None or 0 (no wall-clock sleeping)",
    "executions after the last symbolic pattern entry succeed (only relevant for max_retries=None, where the pattern length bounds the run)",
    "STEP lemma: version in 1..V and max_retries in 0..V (V=12 quick, 400 thorough) or None; the code compares the two integers once, nothing depends on their magnitude",
]

T_STEP = (
    "streamflow.recovery.failure_manager.RollbackFailureManager._update_request",
    "streamflow.recovery.failure_manager.RollbackFailureManager.get_request",
    "streamflow.core.recovery.RecoveryRequest.__init__",
)
T_FLOW = (
    "streamflow.core.recovery.recoverable",
    "streamflow.recovery.failure_manager.RollbackFailureManager.recover",
    "streamflow.recovery.failure_manager.RollbackFailureManager._do_handle_failure",
    "streamflow.recovery.failure_manager.RollbackFailureManager._synchronize_workflows",
    "streamflow.recovery.failure_manager.RollbackFailureManager._update_request",
    "streamflow.recovery.failure_manager.RollbackFailureManager.is_recovering",
    "streamflow.recovery.failure_manager.RollbackFailureManager.get_request",
)
T_DUMMY = (
    "streamflow.core.recovery.recoverable",
    "streamflow.recovery.failure_manager.DummyFailureManager.recover",
)

JOB = "/exec/0"
OTHER = "/other/0"

# body outcomes
OK, FAIL, UNREC, CANCEL = 0, 1, 2, 3


# ---------------------------------------------------------------- environment


class _Alloc:
    __slots__ = ("status",)

    def __init__(self, status):
        self.status = status


class StubScheduler:
    def __init__(self):
        self.allocs: dict = {}
        self.log: list = []

    async def notify_status(self, job_name, status):
        self.log.append((job_name, status))
        if job_name in self.allocs:
            self.allocs[job_name].status = status
        else:
            self.allocs[job_name] = _Alloc(status)

    def get_allocation(self, job_name):
        return self.allocs[job_name]

    def count(self, job_name, status):
        n = 0
        for j, s in self.log:
            if j == job_name and s == status:
                n += 1
        return n


class World:
    """one stub step with one job; `pattern[i]` decides the (i+1)-th execution of the body."""

    def __init__(self, pattern, manager, max_retries=None, retry_delay=None, wrap=True, notify=True):
        from lib.detloop import DetLoop
        from lib.stubs import StubContext, new_workflow
        from streamflow.core.recovery import recoverable
        from streamflow.core.workflow import Job, Status, Step
        from streamflow.recovery.failure_manager import DummyFailureManager, RollbackFailureManager

        self.pattern = pattern
        self.wrap = wrap
        # notify=True: the step reports RUNNING / final status to the scheduler around the job
        # (ExecuteStep._run_job); notify=False: it does not (ScheduleStep._schedule,
        # TransferStep._run_transfer: the allocation keeps whatever status recovery left)
        self.notify = notify
        self.execs = 0
        self.raised: list = []  # exception objects raised by the body, in order
        self.ctx = StubContext()
        self.sched = StubScheduler()
        self.ctx.scheduler = self.sched
        self.loop = DetLoop(max_steps=4000)
        world = self

        class StubStep(Step):
            async def restore(self, on_tokens):
                return None

            async def run(self):
                return None

            async def terminate(self, status):
                return None

            @recoverable
            async def execute(self, job: Job) -> None:
                world.execs += 1
                k = world.execs
                kind = OK
                if k <= len(world.pattern):
                    kind = world.pattern[k - 1]
                if kind == OK:
                    return None
                if kind == FAIL:
                    from streamflow.core.exception import WorkflowExecutionException

                    e = WorkflowExecutionException("injected failure")
                elif kind == UNREC:
                    from streamflow.core.exception import UnrecoverableWorkflowException

                    e = UnrecoverableWorkflowException("injected unrecoverable failure")
                else:
                    e = asyncio.CancelledError()
                world.raised.append(e)
                raise e

            async def run_job(self, job: Job):
                """what ExecuteStep._run_job does around the @recoverable coroutine"""
                status = Status.FAILED
                try:
                    if world.notify:
                        await self.workflow.context.scheduler.notify_status(job.name, Status.RUNNING)
                    await self.execute(job)
                    status = Status.COMPLETED
                except asyncio.CancelledError:
                    status = Status.CANCELLED
                except Exception:
                    status = Status.FAILED
                finally:
                    if world.notify:
                        await self.workflow.context.scheduler.notify_status(job.name, status)
                return status

        if manager == "rollback":

            class KernelRollbackFailureManager(RollbackFailureManager):
                async def _recover(self, failed_job, failed_step):
                    request = self.get_request(failed_job.name)
                    async with request.lock:
                        await self._synchronize_workflows(
                            failed_job=failed_job.name,
                            job_tokens=[],
                            mapper=None,
                            retry_requests=[request],
                            workflow=failed_step.workflow,
                        )
                    if world.wrap:
                        from streamflow.core.exception import WorkflowExecutionException

                        if await failed_step.run_job(failed_job) != Status.COMPLETED:
                            raise WorkflowExecutionException("FAILED Workflow execution")
                    else:
                        if world.notify:
                            await self.context.scheduler.notify_status(failed_job.name, Status.RUNNING)
                        await failed_step.execute(failed_job)

            self.fm = KernelRollbackFailureManager(self.ctx, max_retries=max_retries, retry_delay=retry_delay)
        else:
            self.fm = DummyFailureManager(self.ctx)
        self.ctx.failure_manager = self.fm
        self.wf = new_workflow(self.ctx)
        self.step = StubStep(name="/exec", workflow=self.wf)
        self.job = Job(name=JOB, workflow_id=1, inputs={}, input_directory=None, output_directory=None, tmp_directory=None)

    def run(self):
        """-> ("ok", None) | ("raise", exc) | ("cancel", exc) | ("loop", None)"""
        from lib.detloop import Deadlock, Livelock
        from streamflow.core.workflow import Status

        with self.loop as loop:
            try:
                loop.run_until_complete(self.sched.notify_status(JOB, Status.FIREABLE))
                loop.run_until_complete(self.sched.notify_status(JOB, Status.RUNNING))
                loop.run_until_complete(self.step.execute(self.job))
                return ("ok", None)
            except (Livelock, Deadlock):
                return ("loop", None)
            except asyncio.CancelledError as e:
                return ("cancel", e)
            except Exception as e:
                return ("raise", e)


# ---------------------------------------------------------------- reference model


def ref_flow(pattern, max_retries, wrap):
    """(number of executions, outcome) where outcome is "ok" | "exhausted" | "own" (the body's own
    unrecoverable exception travels up) | "cancel"."""
    n = 0
    while True:
        n += 1
        kind = pattern[n - 1] if n <= len(pattern) else OK
        if kind == OK:
            return n, "ok"
        if kind != FAIL and (n == 1 or not wrap):
            # never handled by @recoverable; a re-run inside the executor (wrap) reports it as a failed step instead
            return n, ("own" if kind == UNREC else "cancel")
        # execution n failed: version == n; a retry needs version < max_retries
        if max_retries is not None and not (n < max_retries):
            return n, "exhausted"


# ---------------------------------------------------------------- properties


def prop_update_step(version: int, has_max: bool, m: int, other_version: int) -> bool:
    """one step of the retry counter from an arbitrary state"""
    from lib.detloop import DetLoop
    from lib.stubs import StubContext
    from streamflow.core.exception import FailureHandlingException
    from streamflow.core.recovery import RecoveryRequest
    from streamflow.core.workflow import Status
    from streamflow.recovery.failure_manager import RollbackFailureManager

    if RecoveryRequest("x").version != 1:  # base case of the induction
        return False
    ctx = StubContext()
    sched = StubScheduler()
    ctx.scheduler = sched
    max_retries = m if has_max else None
    fm = RollbackFailureManager(ctx, max_retries=max_retries)
    with DetLoop(max_steps=2000) as loop:
        req = fm.get_request(JOB)
        other = fm.get_request(OTHER)
        if req is other or fm.get_request(JOB) is not req:
            return False
        req.version = version
        other.version = other_version
        raised = None
        try:
            loop.run_until_complete(fm._update_request(JOB))
        except FailureHandlingException as e:
            raised = e
        if other.version != other_version or fm.get_request(JOB) is not req:
            return False
        if raised is None:
            # retried: counter advanced by exactly one, still within the limit, ROLLBACK notified once
            if req.version != version + 1:
                return False
            if has_max and not (req.version <= m):
                return False
            return sched.log == [(JOB, Status.ROLLBACK)]
        # refused: only possible with a limit that is reached; state unchanged, nothing notified
        if not has_max or version < m:
            return False
        return req.version == version and sched.log == []


def prop_flow(pattern, has_max: bool, m: int, wrap: bool, delay0: bool, notify: bool = True) -> bool:
    """the whole retry flow agrees with the reference loop"""
    from streamflow.core.exception import FailureHandlingException
    from streamflow.core.workflow import Status

    max_retries = m if has_max else None
    w = World(pattern, "rollback", max_retries=max_retries, retry_delay=0 if delay0 else None, wrap=wrap, notify=notify)
    outcome, exc = w.run()
    if outcome == "loop":
        return False
    # the bound of the property statement
    if has_max and w.execs > (m if m > 1 else 1):
        return False
    n_ref, out_ref = ref_flow(pattern, max_retries, wrap)
    if w.execs != n_ref or len(w.raised) != (n_ref - 1 if out_ref == "ok" else n_ref):
        return False
    if out_ref == "ok":
        if outcome != "ok":
            return False
    elif out_ref == "exhausted":
        # the workflow fails: failure-handling error (or the job's own exception)
        if outcome != "raise":
            return False
        if not isinstance(exc, FailureHandlingException):
            hit = False
            for e in w.raised:
                if e is exc:
                    hit = True
            if not hit:
                return False
    elif out_ref == "own":
        if outcome != "raise" or exc is not w.raised[n_ref - 1]:
            return False
    else:
        if outcome != "cancel":
            return False
    # bookkeeping asserted by tests/test_recovery.py: version == number of executions
    if n_ref > 1 or JOB in w.fm._retry_requests:
        if w.fm.get_request(JOB).version != w.execs:
            return False
    # one ROLLBACK per re-execution
    if w.sched.count(JOB, Status.ROLLBACK) != w.execs - 1:
        return False
    return True


def prop_never_retried(kind: int, has_max: bool, m: int, wrap: bool, rest) -> bool:
    """CancelledError / UnrecoverableWorkflowException raised by the job body are propagated, not handled"""
    from streamflow.core.workflow import Status

    pattern = [kind] + list(rest)
    w = World(pattern, "rollback", max_retries=m if has_max else None, wrap=wrap)
    outcome, exc = w.run()
    if w.execs != 1 or len(w.raised) != 1 or exc is not w.raised[0]:
        return False
    if w.sched.count(JOB, Status.RECOVERY) != 0 or w.sched.count(JOB, Status.ROLLBACK) != 0:
        return False
    if JOB in w.fm._retry_requests and w.fm.get_request(JOB).version != 1:
        return False
    return outcome == ("raise" if kind == UNREC else "cancel")


def prop_dummy(first: int, rest) -> bool:
    """without a rollback failure manager the first failure fails the workflow (same exception object, one execution)"""
    pattern = [first] + list(rest)
    w = World(pattern, "dummy")
    outcome, exc = w.run()
    if w.execs != 1:
        return False
    if first == OK:
        return outcome == "ok"
    if len(w.raised) != 1 or exc is not w.raised[0]:
        return False
    return outcome == ("cancel" if first == CANCEL else "raise")


# ---------------------------------------------------------------- obligations

IMPORTS = "from harness.C17 import *\nimport streamflow.recovery.failure_manager, streamflow.core.recovery, lib.detloop, lib.stubs"


def _pat(L, hi, name="f"):
    params = ", ".join(f"{name}{i}: int" for i in range(L))
    pre = [f"0 <= {name}{i} <= {hi}" for i in range(L)]
    expr = "[" + ", ".join(f"{name}{i}" for i in range(L)) + "]"
    return params, pre, expr


def specs(tier: str):
    quick = tier == "quick"
    out = []
    # ---- STEP lemma
    V = 12 if quick else 400
    out.append(
        Spec(
            name=f"update_step_V{V}",
            group="STEP: one step of the retry counter",
            source=mk_source(
                IMPORTS,
                "version: int, has_max: bool, m: int, other_version: int",
                [f"1 <= version <= {V}", f"0 <= m <= {V}", "has_max or m == 0", "1 <= other_version <= 3"],
                "prop_update_step(version, has_max, m, other_version)",
            ),
            cond=600 if quick else 2400,
            path=60,
            bound=f"arbitrary counter state: version 1..{V}, max_retries None or 0..{V}; a second job's request with version 1..3",
            symbolic="3 ints + 1 bool",
            targets=T_STEP,
        )
    )
    # ---- FLOW lemma, soft failures
    L = 5 if quick else 10
    M = 5 if quick else 10
    p, pre, expr = _pat(L, 1)
    for wrap in (True, False):
        out.append(
            Spec(
                name=f"flow_soft_L{L}_{'executor' if wrap else 'direct'}",
                group="FLOW: executions <= max(1, max_retries), raise on exhaustion",
                source=mk_source(
                    IMPORTS,
                    p + ", has_max: bool, m: int, delay0: bool, notify: bool",
                    pre + [f"0 <= m <= {M}", "has_max or m == 0"],
                    f"prop_flow({expr}, has_max, m, {wrap}, delay0, notify)",
                ),
                cond=900 if quick else 2400,
                path=90,
                bound=f"failure pattern of {L} symbolic entries (i-th execution fails?), later executions succeed; max_retries None or 0..{M}; retry_delay None or 0; "
                + ("recovery-workflow failure surfaces as the executor's WorkflowExecutionException" if wrap else "inner exception passed up unchanged")
                + "; failing phase = execute (step reports RUNNING/FAILED to the scheduler) or schedule/transfer (it does not)",
                symbolic=f"{L + 1} ints + 3 bools",
                targets=T_FLOW,
            )
        )
    # ---- FLOW lemma, any outcome anywhere
    L2 = 3 if quick else 6
    p, pre, expr = _pat(L2, 3)
    for wrap in (True, False):
        out.append(
            Spec(
                name=f"flow_any_L{L2}_{'executor' if wrap else 'direct'}",
                group="FLOW: executions <= max(1, max_retries), raise on exhaustion",
                source=mk_source(
                    IMPORTS,
                    p + ", has_max: bool, m: int, notify: bool",
                    pre + [f"0 <= m <= {L2 + 1}", "has_max or m == 0"],
                    f"prop_flow({expr}, has_max, m, {wrap}, False, notify)",
                ),
                cond=900 if quick else 2400,
                path=90,
                bound=f"{L2} symbolic executions, each succeeds / fails / raises UnrecoverableWorkflowException / is cancelled; max_retries None or 0..{L2 + 1}; failing phase execute or schedule/transfer",
                symbolic=f"{L2 + 1} ints + 2 bools",
                targets=T_FLOW,
            )
        )
    # ---- never retried
    p, pre, expr = _pat(2, 3, "r")
    out.append(
        Spec(
            name="never_retried",
            group="FLOW: CancelledError / UnrecoverableWorkflowException are not retried",
            source=mk_source(
                IMPORTS,
                "kind: int, has_max: bool, m: int, wrap: bool, " + p,
                ["2 <= kind <= 3", "0 <= m <= 5", "has_max or m == 0"] + pre,
                f"prop_never_retried(kind, has_max, m, wrap, {expr})",
            ),
            cond=600,
            path=60,
            bound="first execution raises UnrecoverableWorkflowException or asyncio.CancelledError; max_retries None or 0..5; both recovery-stub variants; what later executions would do is symbolic",
            symbolic="4 ints + 2 bools",
            targets=T_FLOW,
        )
    )
    # ---- dummy failure manager
    out.append(
        Spec(
            name="dummy_first_failure",
            group="DUMMY: without a rollback failure manager the first failure fails the workflow",
            source=mk_source(
                IMPORTS,
                "first: int, " + p,
                ["0 <= first <= 3"] + pre,
                f"prop_dummy(first, {expr})",
            ),
            cond=600,
            path=60,
            bound="first execution succeeds / fails / raises UnrecoverableWorkflowException / is cancelled; later executions symbolic",
            symbolic="3 ints",
            targets=T_DUMMY,
        )
    )
    return out
