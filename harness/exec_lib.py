"""Executor-level driver shared by C04 (termination), C05 (determinism) and C07 (provenance).

Small workflow graphs are assembled from the REAL step classes (Transformer,
ScatterStep, GatherStep, CombinatorStep, CWLConditionalStep, ScheduleStep,
ExecuteStep) and run by the REAL StreamFlowExecutor on a DetLoop whose first K
scheduling choices are solver variables. Input values, the step that fails and
the completion order of jobs are solver variables too.
"""

from __future__ import annotations

import asyncio


def _imports():
    from streamflow.core.workflow import Status, Token
    from streamflow.workflow.step import Transformer
    from streamflow.workflow.token import ListToken, TerminationToken

    return Status, Token, Transformer, ListToken, TerminationToken


class Env:
    """Graph under construction + harness-side expectations."""

    def __init__(self, choices, fault, offset=0):
        from lib.detloop import DetLoop
        from lib.stubs import StubContext, new_workflow

        self.ctx = StubContext()
        self.wf = new_workflow(self.ctx)
        self.loop = DetLoop(choices=choices, offset=offset)
        self.fault = fault  # index of the transformer/command that fails (-1: none)
        self.nfaultable = 0
        self.consumed = {}  # id(step) -> list of (output token, [input tokens]) recorded by harness steps
        self.inputs = []  # (port, [tokens])
        self.gates = []
        self.triggered = False  # set when the injected fault actually fired
        self.restore = []  # (module, attribute, original) patched by a graph builder

    def faulty(self):
        k = self.nfaultable
        self.nfaultable += 1
        return self.fault == k


def _mk_transformer(env, name, fn, in_names, out_name="out"):
    """A Transformer whose transform applies fn to the input values (in port order)."""
    Status, Token, Transformer, ListToken, TerminationToken = _imports()
    from streamflow.core.utils import get_tag

    fails = env.faulty()

    class T(Transformer):
        async def transform(self, inputs):
            if fails:
                env.triggered = True
                raise RuntimeError("injected fault in " + self.name)
            vals = [inputs[n].value for n in in_names]
            return {out_name: Token(value=fn(*vals), tag=get_tag(inputs.values()))}

    T.__name__ = "T_" + name.strip("/")
    return env.wf.create_step(cls=T, name=name)


def _val(tok):
    from streamflow.workflow.utils import get_token_value

    return get_token_value(tok)


# ---------------------------------------------------------------- graphs
# every builder returns (expected_outputs: dict port name -> value or None if unknown,
#                        all_steps, extra_check callable or None)


def g_chain(env, v):
    Status, Token, Transformer, ListToken, TerminationToken = _imports()
    wf = env.wf
    p0, p1, p2 = wf.create_port(name="p0"), wf.create_port(name="p1"), wf.create_port(name="p2")
    t1 = _mk_transformer(env, "/t1", lambda x: x + 1, ["x"])
    t1.add_input_port("x", p0)
    t1.add_output_port("out", p1)
    t2 = _mk_transformer(env, "/t2", lambda x: x * 2, ["x"])
    t2.add_input_port("x", p1)
    t2.add_output_port("out", p2)
    wf.output_ports["result"] = p2.name
    env.inputs.append((p0, [Token(value=v[0], tag="0")]))
    return {"result": (v[0] + 1) * 2}


def g_scatter(env, v, n):
    Status, Token, Transformer, ListToken, TerminationToken = _imports()
    from streamflow.workflow.step import GatherStep, ScatterStep

    wf = env.wf
    p_in, p_el, p_t, p_out = (wf.create_port(name=x) for x in ("in", "el", "t", "out"))
    sc = wf.create_step(cls=ScatterStep, name="/sc")
    sc.add_input_port("x", p_in)
    sc.add_output_port("x", p_el)
    t = _mk_transformer(env, "/t", lambda x: x + 10, ["x"])
    t.add_input_port("x", p_el)
    t.add_output_port("out", p_t)
    ga = wf.create_step(cls=GatherStep, name="/ga", size_port=sc.get_size_port())
    ga.add_input_port("x", p_t)
    ga.add_output_port("x", p_out)
    wf.output_ports["result"] = p_out.name
    vals = [v[i] for i in range(n)]
    env.inputs.append((p_in, [ListToken(value=[Token(value=x) for x in vals], tag="0")]))
    return {"result": [x + 10 for x in vals]}


def g_dot(env, v, n):
    """two scattered inputs joined by a dot-product combinator, summed, gathered."""
    Status, Token, Transformer, ListToken, TerminationToken = _imports()
    from streamflow.workflow.combinator import DotProductCombinator
    from streamflow.workflow.step import CombinatorStep, GatherStep, ScatterStep

    wf = env.wf
    pa, pb, ea, eb, ca, cb, ps, pout = (wf.create_port(name=x) for x in ("a", "b", "ea", "eb", "ca", "cb", "s", "out"))
    sa = wf.create_step(cls=ScatterStep, name="/sa")
    sa.add_input_port("a", pa)
    sa.add_output_port("a", ea)
    sb = wf.create_step(cls=ScatterStep, name="/sb")
    sb.add_input_port("b", pb)
    sb.add_output_port("b", eb)
    comb = DotProductCombinator(name="dot", workflow=wf)
    comb.add_item("a")
    comb.add_item("b")
    cs = wf.create_step(cls=CombinatorStep, name="/comb", combinator=comb)
    cs.add_input_port("a", ea)
    cs.add_input_port("b", eb)
    cs.add_output_port("a", ca)
    cs.add_output_port("b", cb)
    t = _mk_transformer(env, "/sum", lambda x, y: x + y, ["a", "b"])
    t.add_input_port("a", ca)
    t.add_input_port("b", cb)
    t.add_output_port("out", ps)
    ga = wf.create_step(cls=GatherStep, name="/ga", size_port=sa.get_size_port())
    ga.add_input_port("x", ps)
    ga.add_output_port("x", pout)
    wf.output_ports["result"] = pout.name
    A = [v[i] for i in range(n)]
    B = [v[2 + i] for i in range(n)]
    env.inputs.append((pa, [ListToken(value=[Token(value=x) for x in A], tag="0")]))
    env.inputs.append((pb, [ListToken(value=[Token(value=x) for x in B], tag="0")]))
    return {"result": [x + y for x, y in zip(A, B)]}


def g_cond(env, v):
    """conditional step with a skip port: value > 0 -> +1 else None."""
    Status, Token, Transformer, ListToken, TerminationToken = _imports()
    from streamflow.cwl.step import CWLConditionalStep

    class Cond(CWLConditionalStep):
        async def _eval(self, inputs):
            return inputs["x"].value > 0

    wf = env.wf
    p_in, p_c, p_out = (wf.create_port(name=x) for x in ("in", "c", "out"))
    cond = wf.create_step(cls=Cond, name="/when", expression="")
    cond.add_input_port("x", p_in)
    cond.add_output_port("x", p_c)
    t = _mk_transformer(env, "/body", lambda x: x + 1, ["x"])
    t.add_input_port("x", p_c)
    t.add_output_port("out", p_out)
    cond.add_skip_port("out", p_out)
    wf.output_ports["result"] = p_out.name
    env.inputs.append((p_in, [Token(value=v[0], tag="0")]))
    return {"result": (v[0] + 1) if v[0] > 0 else None}


def g_two_outputs(env, v):
    """two independent branches, two workflow outputs (a failure in one must still terminate the other)."""
    Status, Token, Transformer, ListToken, TerminationToken = _imports()
    wf = env.wf
    a0, a1, b0, b1, b2 = (wf.create_port(name=x) for x in ("a0", "a1", "b0", "b1", "b2"))
    ta = _mk_transformer(env, "/ta", lambda x: x + 1, ["x"])
    ta.add_input_port("x", a0)
    ta.add_output_port("out", a1)
    tb1 = _mk_transformer(env, "/tb1", lambda x: x + 2, ["x"])
    tb1.add_input_port("x", b0)
    tb1.add_output_port("out", b1)
    tb2 = _mk_transformer(env, "/tb2", lambda x: x + 3, ["x"])
    tb2.add_input_port("x", b1)
    tb2.add_output_port("out", b2)
    wf.output_ports["ra"] = a1.name
    wf.output_ports["rb"] = b2.name
    env.inputs.append((a0, [Token(value=v[0], tag="0")]))
    env.inputs.append((b0, [Token(value=v[1], tag="0")]))
    return {"ra": v[0] + 1, "rb": v[1] + 5}


def g_exec(env, v, n, slots, order, gated=True, hw=False, delay=1):
    """scatter -> schedule -> execute (real DefaultScheduler, stub connector with `slots`) -> gather.
    order: symbolic ints choosing which pending job command completes next.
    gated=False: commands complete (or fail) immediately, without waiting for the harness, so a
    failure can hit siblings that have not started yet or are in their final notification.
    hw=True: the location exposes hardware (8 cores) instead of slots, every job requires 1 core, and
    measuring the storage usage at release time takes `delay` scheduling steps (yields inside the
    scheduler's critical section; solver-chosen), so notifications of different jobs contend for the scheduler lock."""
    Status, Token, Transformer, ListToken, TerminationToken = _imports()
    from harness.sched_lib import StubConnector, StubDeploymentManager
    from streamflow.core.config import BindingConfig
    from streamflow.core.deployment import DeploymentConfig, Target
    from streamflow.core.scheduling import AvailableLocation
    from streamflow.core.workflow import Command, CommandOutput
    from streamflow.scheduling.scheduler import DefaultScheduler
    from streamflow.workflow.step import ExecuteStep, GatherStep, ScatterStep, ScheduleStep

    wf, ctx = env.wf, env.ctx
    hreq = None
    if hw:
        from harness.sched_lib import Req, Usage
        from streamflow.core.scheduling import Hardware, Storage
        import streamflow.scheduling.scheduler as sched_mod

        locs = {"l0": AvailableLocation(name="l0", deployment="d", hostname="h", hardware=Hardware(cores=8, memory=8, storage={"/": Storage("/", 100)}))}
        hreq = Req(1, 0, 0, "/")

        async def _usages(context, location, hardware):
            for _ in range(delay):  # measuring takes a while: other tasks run meanwhile
                await asyncio.sleep(0)
            return {k: Usage(0) for k in hardware.storage.keys()}

        env.restore.append((sched_mod.remotepath, "get_storage_usages", sched_mod.remotepath.get_storage_usages))
        sched_mod.remotepath.get_storage_usages = _usages
    else:
        locs = {"l0": AvailableLocation(name="l0", deployment="d", hostname="h", slots=slots)}
    ctx.deployment_manager = StubDeploymentManager({"d": StubConnector("d", locs)})
    ctx.scheduler = DefaultScheduler(ctx)

    class DM:
        def get_data_locations(self, *a, **k):
            return [1]

        def register_path(self, *a, **k):
            return None

    ctx.data_manager = DM()

    class Sched(ScheduleStep):
        async def _set_job_directories(self, connector, locations, job):
            job.input_directory = job.output_directory = job.tmp_directory = "/wd/" + job.name.replace("/", "_")

    fails = env.faulty()
    gates = env.gates

    class Cmd(Command):
        async def execute(self, job):
            if gated:
                g = asyncio.get_running_loop().create_future()
                gates.append((job.name, g))
                await g
            x = job.inputs["x"].value
            if fails and job.name.endswith(".0"):
                env.triggered = True
                return CommandOutput(value="boom", status=Status.FAILED)
            return CommandOutput(value=x * 3, status=Status.COMPLETED)

    p_in, p_el, p_res, p_out = (wf.create_port(name=x) for x in ("in", "el", "res", "out"))
    sc = wf.create_step(cls=ScatterStep, name="/sc")
    sc.add_input_port("x", p_in)
    sc.add_output_port("x", p_el)
    binding = BindingConfig(targets=[Target(deployment=DeploymentConfig(name="d", type="stub", config={}), workdir="/wd")])
    ss = wf.create_step(cls=Sched, name="/ex__schedule__", job_prefix="/ex", connector_ports={}, binding_config=binding, hardware_requirement=hreq)
    ss.add_input_port("x", p_el)
    ex = wf.create_step(cls=ExecuteStep, name="/ex", job_port=ss.get_output_port())
    ex.command = Cmd(ex)
    ex.add_input_port("x", p_el)
    ex.add_output_port("out", p_res)
    ga = wf.create_step(cls=GatherStep, name="/ga", size_port=sc.get_size_port())
    ga.add_input_port("x", p_res)
    ga.add_output_port("x", p_out)
    wf.output_ports["result"] = p_out.name
    vals = [v[i] for i in range(n)]
    env.inputs.append((p_in, [ListToken(value=[Token(value=x) for x in vals], tag="0")]))
    env.order = order
    return {"result": [x * 3 for x in vals]}


def g_join2(env, v, n, perm):
    """a two-input transformer whose ports receive the same tags in DIFFERENT orders (two upstream
    scattered branches finishing out of order): port a in tag order, port b in the order `perm`."""
    Status, Token, Transformer, ListToken, TerminationToken = _imports()
    from streamflow.workflow.step import GatherStep

    wf = env.wf
    pa, pb, ps, psize, pout = (wf.create_port(name=x) for x in ("a", "b", "s", "size", "out"))
    t = _mk_transformer(env, "/sum", lambda x, y: x + y, ["a", "b"])
    t.add_input_port("a", pa)
    t.add_input_port("b", pb)
    t.add_output_port("out", ps)
    ga = wf.create_step(cls=GatherStep, name="/ga", size_port=psize)
    ga.add_input_port("x", ps)
    ga.add_output_port("x", pout)
    wf.output_ports["result"] = pout.name
    A = [v[i] for i in range(n)]
    B = [v[3 + i] for i in range(n)]
    ta = [Token(value=A[i], tag="0." + str(i)) for i in range(n)]
    order = []
    for k in range(n):
        for i in range(n):
            if perm[k] == i and i not in order:
                order.append(i)
    for i in range(n):
        if i not in order:
            order.append(i)
    tb = [Token(value=B[i], tag="0." + str(i)) for i in order]
    env.inputs.append((pa, ta))
    env.inputs.append((pb, tb))
    env.inputs.append((psize, [Token(value=n, tag="0")]))
    return {"result": [x + y for x, y in zip(A, B)]}


def g_gather2(env, v, perm):
    """the elements of a flat cross product (2 x 2, tags 0.i.j) reach a transformer and then a
    depth-2 gather in a solver-chosen completion order `perm` (jobs of the scattered step finishing
    out of order); the gathered list must be in tag (row-major) order whatever the order."""
    Status, Token, Transformer, ListToken, TerminationToken = _imports()
    from streamflow.workflow.step import GatherStep

    wf = env.wf
    pa, ps, psize, pout = (wf.create_port(name=x) for x in ("a", "s", "size", "out"))
    t = _mk_transformer(env, "/inc", lambda x: x + 1, ["a"])
    t.add_input_port("a", pa)
    t.add_output_port("out", ps)
    ga = wf.create_step(cls=GatherStep, name="/ga", size_port=psize, depth=2)
    ga.add_input_port("x", ps)
    ga.add_output_port("x", pout)
    wf.output_ports["result"] = pout.name
    tags = ["0.0.0", "0.0.1", "0.1.0", "0.1.1"]
    order = []
    for k in range(4):
        for i in range(4):
            if perm[k] == i and i not in order:
                order.append(i)
    for i in range(4):
        if i not in order:
            order.append(i)
    env.inputs.append((pa, [Token(value=v[i], tag=tags[i]) for i in order]))
    env.inputs.append((psize, [Token(value=4, tag="0")]))
    return {"result": [v[i] + 1 for i in range(4)]}


def g_bcast(env, v, n):
    """a scattered input x joined (dot product) with TWO non-scattered inputs y, z (tag '0'),
    as the CWL translator builds a step with one scatter input and two plain inputs."""
    Status, Token, Transformer, ListToken, TerminationToken = _imports()
    from streamflow.workflow.combinator import DotProductCombinator
    from streamflow.workflow.step import CombinatorStep, GatherStep, ScatterStep

    wf = env.wf
    px, py, pz, ex, cx, cy, cz, ps, pout = (wf.create_port(name=q) for q in ("x", "y", "z", "ex", "cx", "cy", "cz", "s", "out"))
    sx = wf.create_step(cls=ScatterStep, name="/sx")
    sx.add_input_port("x", px)
    sx.add_output_port("x", ex)
    comb = DotProductCombinator(name="dot", workflow=wf)
    for it in ("x", "y", "z"):
        comb.add_item(it)
    cs = wf.create_step(cls=CombinatorStep, name="/comb", combinator=comb)
    cs.add_input_port("x", ex)
    cs.add_input_port("y", py)
    cs.add_input_port("z", pz)
    cs.add_output_port("x", cx)
    cs.add_output_port("y", cy)
    cs.add_output_port("z", cz)
    t = _mk_transformer(env, "/sum", lambda a, b, c: a + b + c, ["x", "y", "z"])
    t.add_input_port("x", cx)
    t.add_input_port("y", cy)
    t.add_input_port("z", cz)
    t.add_output_port("out", ps)
    ga = wf.create_step(cls=GatherStep, name="/ga", size_port=sx.get_size_port())
    ga.add_input_port("x", ps)
    ga.add_output_port("x", pout)
    wf.output_ports["result"] = pout.name
    X = [v[i] for i in range(n)]
    env.inputs.append((px, [ListToken(value=[Token(value=q) for q in X], tag="0")]))
    env.inputs.append((py, [Token(value=v[3], tag="0")]))
    env.inputs.append((pz, [Token(value=v[4], tag="0")]))
    return {"result": [q + v[3] + v[4] for q in X]}


def g_bcast_late(env, v, n):
    """n scattered elements (tags 0.i, injected directly) joined (dot product) with a non-scattered
    input y (tag 0) that reaches the combinator LATE: it first passes two identity transformers, so
    one arrival at the combinator completes several combinations at once."""
    Status, Token, Transformer, ListToken, TerminationToken = _imports()
    from streamflow.workflow.combinator import DotProductCombinator
    from streamflow.workflow.step import CombinatorStep, GatherStep

    wf = env.wf
    ex, py, y1, y2, cx, cy, ps, psize, pout = (wf.create_port(name=q) for q in ("ex", "y", "y1", "y2", "cx", "cy", "s", "size", "out"))
    d1 = _mk_transformer(env, "/d1", lambda a: a, ["a"])
    d1.add_input_port("a", py)
    d1.add_output_port("out", y1)
    d2 = _mk_transformer(env, "/d2", lambda a: a, ["a"])
    d2.add_input_port("a", y1)
    d2.add_output_port("out", y2)
    comb = DotProductCombinator(name="dot", workflow=wf)
    for it in ("x", "y"):
        comb.add_item(it)
    cs = wf.create_step(cls=CombinatorStep, name="/comb", combinator=comb)
    cs.add_input_port("x", ex)
    cs.add_input_port("y", y2)
    cs.add_output_port("x", cx)
    cs.add_output_port("y", cy)
    t = _mk_transformer(env, "/sum", lambda a, b: a + b, ["x", "y"])
    t.add_input_port("x", cx)
    t.add_input_port("y", cy)
    t.add_output_port("out", ps)
    ga = wf.create_step(cls=GatherStep, name="/ga", size_port=psize)
    ga.add_input_port("x", ps)
    ga.add_output_port("x", pout)
    wf.output_ports["result"] = pout.name
    X = [v[i] for i in range(n)]
    env.inputs.append((ex, [Token(value=X[i], tag="0." + str(i)) for i in range(n)]))
    env.inputs.append((py, [Token(value=v[3], tag="0")]))
    env.inputs.append((psize, [Token(value=n, tag="0")]))
    return {"result": [q + v[3] for q in X]}


# ---------------------------------------------------------------- driver


def run_graph(build, choices, fault, oracle, offset=0):
    """build(env) -> expected outputs. oracle in {"terminate", "deterministic", "provenance"}.
    Returns True iff the property holds on this path."""
    from lib.detloop import Deadlock, Livelock, Prune
    import streamflow.core.utils as cu
    from streamflow.core.exception import WorkflowExecutionException
    from streamflow.core.workflow import Status
    from streamflow.workflow.executor import StreamFlowExecutor
    from streamflow.workflow.token import TerminationToken

    counter = [0]
    orig_rn = cu.random_name

    def _rn():
        counter[0] += 1
        return "name-" + str(counter[0])

    cu.random_name = _rn
    import streamflow.workflow.executor as ex_mod

    class _Clock:  # the executor only stores time.time_ns() in the database: a counter is enough
        n = 0

        @classmethod
        def time_ns(cls):
            cls.n += 1
            return cls.n

    orig_time = ex_mod.time
    ex_mod.time = _Clock
    try:
        env = Env(choices, fault, offset)
        try:
            with env.loop as loop:
                expected = build(env)
                if fault >= env.nfaultable:
                    return True  # no such step in this graph: vacuous partition
                loop.run_until_complete(env.wf.save(env.ctx.database))
                for port, toks in env.inputs:
                    for t in toks:
                        loop.run_until_complete(t.save(env.ctx.database, port_id=port.persistent_id))
                        port.put(t)
                    port.put(TerminationToken(Status.COMPLETED))
                ex = StreamFlowExecutor(env.wf)
                task = loop.create_task(ex.run())
                # release job gates in the solver-chosen order while the executor runs
                order = getattr(env, "order", [])
                oi = 0
                guard = 0
                while not task.done():
                    if loop.step():
                        continue
                    pend = [g for g in env.gates if not g[1].done()]
                    if not pend:
                        raise Deadlock("executor pending, nothing ready, no job to complete")
                    if env.triggered:
                        # after a job failed the other jobs are long-running: they are never
                        # released, the engine must cancel them to terminate
                        raise Deadlock("a job failed but the executor waits for jobs that are still running")
                    idx = 0
                    if oi < len(order) and len(pend) > 1:
                        idx = None
                        for i in range(len(pend)):
                            if order[oi] == i:
                                idx = i
                        if idx is None:
                            raise Prune()
                    oi += 1
                    pend[idx][1].set_result(None)
                    guard += 1
                    if guard > 50:
                        raise Livelock("too many job completions")
                raised = None
                result = None
                try:
                    result = task.result()
                except WorkflowExecutionException as e:
                    raised = e
                # let every remaining callback run (jobs still gated are NOT released)
                loop.run_until_quiescent()
                steps = list(env.wf.steps.values())
                if oracle == "terminate":
                    # the executor raises exactly when the injected fault actually fired
                    if env.triggered != (raised is not None):
                        return False
                    for s in steps:
                        if not s.terminated:
                            return False
                        if s.status not in (Status.COMPLETED, Status.SKIPPED, Status.FAILED, Status.CANCELLED):
                            return False
                        for p in s.get_output_ports().values():
                            if not p.token_list or not isinstance(p.token_list[-1], TerminationToken):
                                return False
                    if loop.pending_tasks():
                        return False
                    if not env.triggered and result != expected:
                        return False
                    return True
                if oracle == "deterministic":
                    if raised is not None:
                        return False
                    if result != expected:
                        return False
                    # per output port: the set of (tag, value) is the expected one, each tag once
                    for name, pname in env.wf.output_ports.items():
                        toks = [t for t in env.wf.ports[pname].token_list if not isinstance(t, TerminationToken)]
                        tags = [t.tag for t in toks]
                        if len(tags) != len(set(tags)):
                            return False
                    return True
                if oracle == "provenance":
                    if raised is not None:
                        return False
                    db = env.ctx.database
                    recorded = {}
                    for ins, tok in db.provenance:
                        if tok in recorded:
                            return False  # provenance of a token recorded twice
                        recorded[tok] = ins
                        for i in ins:
                            if i is None or i >= tok or i not in db.tokens:
                                return False  # dependee not persisted before its depender
                    input_ids = {t.persistent_id for _, toks in env.inputs for t in toks}
                    for s in steps:
                        for p in s.get_output_ports().values():
                            for t in p.token_list:
                                if isinstance(t, TerminationToken):
                                    continue
                                if t.persistent_id is None or t.persistent_id not in db.tokens:
                                    return False  # emitted but not persisted
                                if t.persistent_id in input_ids:
                                    continue
                                if not _prov_ok(s, t, recorded.get(t.persistent_id), env):
                                    return False
                    return True
                return False
        except Prune:
            return True
    finally:
        cu.random_name = orig_rn
        ex_mod.time = orig_time
        try:
            for mod_, attr, orig in env.restore:
                setattr(mod_, attr, orig)
        except NameError:
            pass


def _same_tag_inputs(step, tag):
    from streamflow.workflow.step import CombinatorStep
    from streamflow.workflow.token import TerminationToken

    bcast = isinstance(step, CombinatorStep)  # a combinator also consumes tokens of an ancestor tag (broadcast)
    want = []
    for n, p in step.get_input_ports().items():
        want += [t for t in p.token_list if not isinstance(t, TerminationToken) and (t.tag == tag or (bcast and tag.startswith(t.tag + ".")))]
    return sorted(t.persistent_id for t in want)


def _prov_ok(step, tok, rec, env):
    """the recorded dependees of `tok` are exactly the persisted tokens a writer of the port consumed for it."""
    from streamflow.workflow.step import GatherStep, ScatterStep
    from streamflow.workflow.token import TerminationToken

    if rec is None:
        return False
    rec = sorted(rec)
    if isinstance(step, ScatterStep):
        inp = [t for t in step.get_input_port().token_list if not isinstance(t, TerminationToken)]
        if any(tok is t for t in step.get_size_port().token_list):
            src = [t for t in inp if t.tag == tok.tag]
        else:
            parent = tok.tag.rsplit(".", 1)[0]
            src = [t for t in inp if t.tag == parent]
        return rec == sorted(t.persistent_id for t in src)
    if isinstance(step, GatherStep):
        size = [t for t in step.get_size_port().token_list if not isinstance(t, TerminationToken) and t.tag == tok.tag]
        elems = [t for t in step.get_input_port().token_list if not isinstance(t, TerminationToken) and ".".join(t.tag.split(".")[: -step.depth]) == tok.tag]
        return rec == sorted(t.persistent_id for t in size + elems)
    # transformers, combinators, schedule/execute steps: the inputs carrying the same tag
    if rec == _same_tag_inputs(step, tok.tag):
        return True
    # a port may also be written by a conditional step that lists it as a skip port
    for other in env.wf.steps.values():
        skip = getattr(other, "skip_ports", None)
        if skip and any(env.wf.ports[v] is p for v in skip.values() for p in step.get_output_ports().values()):
            if rec == _same_tag_inputs(other, tok.tag):
                return True
    return False


# ---------------------------------------------------------------- ExecuteStep alone, slow scheduler notifications


def prop_execute_step(n, dfail, dnot, dnot0, fail_job, with_output_consumer=True) -> bool:
    """The real ExecuteStep.run with n concurrent jobs (job tokens and inputs already available) and an
    ENVIRONMENT whose scheduler notifications take time: job `fail_job` fails after `dfail` scheduling
    steps, the COMPLETED notification of the other finished job takes `dnot` steps, the FAILED one
    `dnot0` steps; the remaining jobs are long-running (60 scheduling steps, far longer than everything else). Whatever these
    durations, the step must terminate (FAILED), close its output port and leave no task pending."""
    import asyncio

    from lib.detloop import DetLoop
    from lib.stubs import StubContext, new_workflow
    from streamflow.core.workflow import Command, CommandOutput, Job, Status, Token
    from streamflow.workflow.port import JobPort
    from streamflow.workflow.step import ExecuteStep
    from streamflow.workflow.token import JobToken, TerminationToken

    ctx = StubContext()
    wf = new_workflow(ctx)
    loop = DetLoop()
    notes = []

    class Sched:
        async def notify_status(self, job_name, status):
            notes.append((job_name, status))
            d = 0
            if status == Status.COMPLETED:
                d = dnot
            elif status == Status.FAILED:
                d = dnot0
            for _ in range(d):
                await asyncio.sleep(0)

    ctx.scheduler = Sched()
    tags = ["0." + str(i) for i in range(n)]

    class Cmd(Command):
        async def execute(self, job):
            idx = tags.index(job.name.rsplit("/", 1)[-1])
            if idx == fail_job:
                for _ in range(dfail):
                    await asyncio.sleep(0)
                return CommandOutput(value="boom", status=Status.FAILED)
            if idx == (fail_job + 1) % n:
                return CommandOutput(value=idx, status=Status.COMPLETED)
            for _ in range(60):  # long-running (much longer than everything else), but finite
                await asyncio.sleep(0)
            return CommandOutput(value=idx, status=Status.COMPLETED)

    with loop:
        jp = wf.create_port(cls=JobPort, name="jobs")
        px = wf.create_port(name="x")
        py = wf.create_port(name="y")
        ex = wf.create_step(cls=ExecuteStep, name="/ex", job_port=jp)
        ex.command = Cmd(ex)
        ex.add_input_port("x", px)
        ex.add_output_port("y", py)
        loop.run_until_complete(wf.save(ctx.database))
        for t in tags:
            job = Job(name="/ex/" + t, workflow_id=1, inputs={}, input_directory="/i", output_directory="/o", tmp_directory="/t")
            jt = JobToken(value=job, tag=t)
            jt.persistent_id = 1000 + len(jp.token_list)  # already persisted upstream
            jp.put(jt)
            tok = Token(value=1, tag=t)
            loop.run_until_complete(tok.save(ctx.database, port_id=px.persistent_id))
            px.put(tok)
        px.put(TerminationToken(Status.COMPLETED))
        jp.put(TerminationToken(Status.COMPLETED))
        run = loop.create_task(ex.run())
        # the step must finish by itself: a quiescent loop with run() pending is a hang
        try:
            loop.run_until_complete(run)
        except asyncio.CancelledError:
            return False  # the step's own run() was torn down by a stray cancellation
        if not ex.terminated or ex.status != Status.FAILED:
            return False
        if not py.token_list or not isinstance(py.token_list[-1], TerminationToken):
            return False
        loop.run_until_quiescent()
        if loop.pending_tasks():
            return False
        return True
