"""C03 — ports deliver every token to every consumer exactly once, in order.

Real code executed symbolically: Port.put/get/_init_consumer/close,
FilterTokenPort.put, InterWorkflowPort.put/add_inter_port/_execute_boundary_action,
BoundaryRule.
"""

from __future__ import annotations

from lib.runner import Spec, mk_source

LEVEL = "other"
EXPLANATION = (
    "Histories of put/get operations are solver variables: every operation of a length-L history is a symbolic "
    "integer decoded to (put | get by consumer c | put-termination), so the solver enumerates all histories; "
    "token tags, filter thresholds, boundary tag lists, boundary actions and the point at which a boundary rule is "
    "added are symbolic too."
)
ASSUMPTIONS = [
    "DetLoop replaces the selector loop; a blocked get is a pending task that resumes when a later put arrives",
    "producers do not put after the termination token (what BaseStep.terminate guarantees); consumers are named by concrete strings",
    "InterWorkflowPort: boundary tag lists and put tags are lists of DISTINCT tags '0.<i>' (failure_manager._inject_tokens rejects duplicate tags); "
    "for tokens put AFTER a rule became complete only the commutation clause is asserted (adding the rule before, in the middle of, or after the puts gives the same contents), because the statement does not fix them",
    "self-bound rules (boundary port is the port itself) are only added before the tokens are injected, as failure_manager._inject_tokens does",
]

T_PORT = ("streamflow.core.workflow.Port.put", "streamflow.core.workflow.Port.get", "streamflow.core.workflow.Port._init_consumer", "streamflow.core.workflow.Port.close")
T_FILTER = ("streamflow.workflow.port.FilterTokenPort.put",) + T_PORT
T_INTER = ("streamflow.workflow.port.InterWorkflowPort.put", "streamflow.workflow.port.InterWorkflowPort.add_inter_port", "streamflow.workflow.port.InterWorkflowPort._execute_boundary_action", "streamflow.workflow.port.BoundaryRule.remove_tag", "streamflow.workflow.port.BoundaryRule.is_satisfied") + T_PORT


def _mk():
    from lib.detloop import DetLoop
    from lib.stubs import StubContext, new_workflow

    ctx = StubContext()
    wf = new_workflow(ctx)
    return ctx, wf, DetLoop()


def _is_term(t) -> bool:
    from streamflow.workflow.token import TerminationToken

    return isinstance(t, TerminationToken)


CONSUMERS = ["/s1/p", "/s2/p", "/s3/p"]


# ------------------------------------------------------------ (a) plain port


def prop_port_history(ops, ncons, port_kind=0) -> bool:
    """ops[k] symbolic int: 0 = put next token, 1..ncons = get by consumer k-1,
    ncons+1 = put termination token (at most once, then no more puts)."""
    from streamflow.core.workflow import Port, Status, Token
    from streamflow.workflow.port import FilterTokenPort, InterWorkflowPort, JobPort
    from streamflow.workflow.token import TerminationToken

    ctx, wf, loop = _mk()
    with loop:
        cls = (Port, JobPort, InterWorkflowPort, FilterTokenPort)[port_kind]
        port = wf.create_port(cls=cls, name="p")
        puts = []  # reference: the put sequence
        gets = [[] for _ in range(ncons)]  # per consumer: list of get tasks in call order
        terminated = False
        for op in ops:
            if op == 0:
                if terminated:
                    continue  # producers never put after termination
                t = Token(value=len(puts), tag="0." + str(len(puts)))
                puts.append(t)
                port.put(t)
            elif op == ncons + 1:
                if terminated:
                    continue
                terminated = True
                t = TerminationToken(Status.COMPLETED)
                puts.append(t)
                port.put(t)
            else:
                c = None
                for i in range(ncons):
                    if op == i + 1:
                        c = i
                if c is None:
                    continue
                # a consumer stops reading once it has seen the termination token
                done_vals = [g.result() for g in gets[c] if g.done()]
                if any(_is_term(x) for x in done_vals):
                    continue
                gets[c].append(loop.create_task(port.get(CONSUMERS[c])))
            loop.run_until_quiescent()
        # oracle: per consumer, the completed gets are exactly the prefix of puts, in order;
        # a get is pending only if the consumer has consumed everything put so far
        for c in range(ncons):
            got = []
            pending = 0
            for g in gets[c]:
                if g.done():
                    if pending:
                        return False  # a later get completed before an earlier one
                    got.append(g.result())
                else:
                    pending += 1
            if len(got) > len(puts):
                return False
            for i, t in enumerate(got):
                if t is not puts[i]:
                    return False
            if pending and len(got) != len(puts):
                return False  # blocked although tokens are available (lost wake-up)
        if port.token_list != puts:
            return False
        return True


# ------------------------------------------------------------ (b) filter port


def prop_filter(vals, n, thr, term_pos) -> bool:
    """FilterTokenPort with predicate value >= thr over the first n of vals; a late
    consumer and an early consumer must both see exactly the admitted tokens + termination."""
    from streamflow.core.workflow import Status, Token
    from streamflow.workflow.port import FilterTokenPort
    from streamflow.workflow.token import TerminationToken

    ctx, wf, loop = _mk()
    with loop:
        port = wf.create_port(cls=FilterTokenPort, name="p", filter_function=lambda t: t.value >= thr)
        early = []
        g = loop.create_task(port.get(CONSUMERS[0]))
        early.append(g)
        loop.run_until_quiescent()
        expected = []
        for i in range(n):
            t = Token(value=vals[i], tag="0." + str(i))
            if vals[i] >= thr:
                expected.append(t)
            port.put(t)
            loop.run_until_quiescent()
            if early[-1].done():
                early.append(loop.create_task(port.get(CONSUMERS[0])))
                loop.run_until_quiescent()
        term = TerminationToken(Status.COMPLETED)
        expected.append(term)
        port.put(term)
        loop.run_until_quiescent()
        got_early = [g.result() for g in early if g.done()]
        late = []
        for _ in range(len(expected)):
            late.append(loop.run_until_complete(port.get(CONSUMERS[1])))
        if len(got_early) != len(expected) or len(late) != len(expected):
            return False
        for a, b, c in zip(got_early, late, expected):
            if a is not c or b is not c:
                return False
        return port.token_list == expected


# ------------------------------------------------------------ (c) inter-workflow port


def _run_inter(rule_tags, action, put_tags, add_at, self_bound):
    from streamflow.core.workflow import Token
    from streamflow.workflow.port import BoundaryAction, InterWorkflowPort

    ctx, wf, loop = _mk()
    with loop:
        port = wf.create_port(cls=InterWorkflowPort, name="p")
        other = wf.create_port(name="b")
        target = port if self_bound else other
        act = None
        if action == 1:
            act = BoundaryAction.PROPAGATE
        elif action == 2:
            act = BoundaryAction.TERMINATE
        else:
            act = BoundaryAction.PROPAGATE | BoundaryAction.TERMINATE
        toks = [Token(value=j, tag="0." + str(s)) for j, s in enumerate(put_tags)]
        tags = ["0." + str(r) for r in rule_tags]
        for j in range(len(toks) + 1):
            if add_at == j:
                port.add_inter_port(target, tags, act)
            if j < len(toks):
                port.put(toks[j])
        local = [("T", int(t.value)) if _is_term(t) else ("v", t.value) for t in port.token_list]
        bound = [("T", int(t.value)) if _is_term(t) else ("v", t.value) for t in other.token_list]
        return local, bound


def prop_inter(rule_tags, action, put_tags, add_at, self_bound=False) -> bool:
    """Reference for the prefix up to completion; commutation for everything."""
    from streamflow.core.workflow import Status

    n = len(put_tags)
    local, bound = _run_inter(rule_tags, action, put_tags, add_at, self_bound)
    # completion index: first c such that every rule tag is among put_tags[0..c]
    comp = None
    seen = 0
    need = len(rule_tags)
    for j in range(n):
        hit = False
        for r in rule_tags:
            if r == put_tags[j]:
                hit = True
        if hit:
            seen += 1
        if comp is None and seen == need:
            comp = j
    rec = int(Status.RECOVERED)
    emitted = []
    if comp is not None:
        if action != 2:
            emitted.append(("v", comp))
        if action != 1:
            emitted.append(("T", rec))
    if not self_bound:
        # local port: every put token exactly once, in order (terminations only via rules => none here)
        if local != [("v", j) for j in range(n)]:
            return False
        if comp is None:
            if bound != []:
                return False
        else:
            if bound[: len(emitted)] != emitted:
                return False
            # nothing before completion, and what follows is only fixed by commutation
        base_local, base_bound = _run_inter(rule_tags, action, put_tags, 0, False)
        if (local, bound) != (base_local, base_bound):
            return False
        return True
    else:
        # self-bound rule, added before the puts (add_at == 0 by precondition)
        want = [("v", j) for j in range(n if comp is None else comp)]
        if local[: len(want)] != want:
            return False
        if comp is None:
            return local == want and bound == []
        if local[len(want) : len(want) + len(emitted)] != emitted:
            return False
        # no duplicate delivery of any token
        vs = [x for x in local if x[0] == "v"]
        if len(vs) != len(set(vs)):
            return False
        return bound == []


def prop_inter2(t1, a1, s1, t2, a2, s2, put_tags, swap) -> bool:
    """Two single-tag rules on one InterWorkflowPort (each self-bound or bound to its own other
    port), added before the puts in either order. Clauses the statement fixes, independent of what
    happens to tokens put after a rule completed:
      - no consumer of the local port sees any token twice, and tokens keep their put order;
      - if no self-bound rule ever completes, the local port carries exactly the puts;
      - a boundary port receives nothing before its rule completes and then first the completing
        token (PROPAGATE) / the RECOVERED termination (TERMINATE)."""
    from streamflow.core.workflow import Status, Token
    from streamflow.workflow.port import BoundaryAction, InterWorkflowPort

    def act(a):
        if a == 1:
            return BoundaryAction.PROPAGATE
        if a == 2:
            return BoundaryAction.TERMINATE
        return BoundaryAction.PROPAGATE | BoundaryAction.TERMINATE

    ctx, wf, loop = _mk()
    with loop:
        port = wf.create_port(cls=InterWorkflowPort, name="p")
        o1 = wf.create_port(name="b1")
        o2 = wf.create_port(name="b2")
        rules = [(t1, a1, s1, o1), (t2, a2, s2, o2)]
        if swap:
            rules = [rules[1], rules[0]]
        for t, a, sb, o in rules:
            port.add_inter_port(port if sb else o, ["0." + str(t)], act(a))
        toks = [Token(value=j, tag="0." + str(g)) for j, g in enumerate(put_tags)]
        for tk in toks:
            port.put(tk)
        local_vals = [t.value for t in port.token_list if not _is_term(t)]
        # exactly once, in order
        for i in range(len(local_vals)):
            for k in range(i + 1, len(local_vals)):
                if local_vals[i] >= local_vals[k]:
                    return False
        rec = int(Status.RECOVERED)
        any_self_completes = False
        for t, a, sb, o in rules:
            comp = None
            for j, g in enumerate(put_tags):
                if comp is None and g == t:
                    comp = j
            if sb:
                if comp is not None:
                    any_self_completes = True
                continue
            got = [("T", int(x.value)) if _is_term(x) else ("v", x.value) for x in o.token_list]
            if comp is None:
                if got != []:
                    return False
            else:
                want = []
                if a != 2:
                    want.append(("v", comp))
                if a != 1:
                    want.append(("T", rec))
                if got[: len(want)] != want:
                    return False
        if not any_self_completes:
            if local_vals != list(range(len(put_tags))) or any(_is_term(t) for t in port.token_list):
                return False
        return True


# ---------------------------------------------------------------- obligations

IMPORTS = "from harness.C03 import *"


def specs(tier: str):
    quick = tier == "quick"
    out = []
    # (a) histories
    for ncons, L in ((1, 5), (2, 5), (3, 4)) if quick else ((1, 7), (2, 6), (3, 6), (2, 7)):
        nops = ncons + 2
        # partition on the first op (and second for the larger ones) to spread over cores
        npart = 1 if nops ** L <= 1500 else (nops if nops ** (L - 1) <= 4000 else nops * nops)
        for part in range(npart):
            fixed = []
            x = part
            if npart == nops:
                fixed = [part]
            elif npart == nops * nops:
                fixed = [part // nops, part % nops]
            sym = [f"o{i}" for i in range(len(fixed), L)]
            ops_expr = "[" + ", ".join([str(f) for f in fixed] + sym) + "]"
            out.append(
                Spec(
                    name=f"port_history_c{ncons}_L{L}" + ("" if npart == 1 else f"_p{part}"),
                    group="(a) every consumer reads exactly the put sequence, in order, late subscribers included",
                    source=mk_source(
                        IMPORTS,
                        ", ".join(f"{s}: int" for s in sym),
                        [f"0 <= {s} <= {nops - 1}" for s in sym],
                        f"prop_port_history({ops_expr}, {ncons})",
                    ),
                    cond=900 if quick else 3000,
                    path=60,
                    bound=f"ALL histories of {L} operations over put / get by one of {ncons} consumers / put-termination"
                    + (f" (partition: first ops fixed to {fixed})" if fixed else "")
                    + "; gets may block and resume; consumers may first read at any point (late subscribers)",
                    symbolic=f"{len(sym)} operation codes",
                    targets=T_PORT,
                )
            )
    for kind, nm in ((1, "JobPort"), (2, "InterWorkflowPort"), (3, "FilterTokenPort")):
        L = 4 if quick else 5
        sym = [f"o{i}" for i in range(L)]
        out.append(
            Spec(
                name=f"port_history_{nm}_c2_L{L}",
                group="(a) every consumer reads exactly the put sequence, in order, late subscribers included",
                source=mk_source(
                    IMPORTS,
                    ", ".join(f"{s}: int" for s in sym),
                    [f"0 <= {s} <= 3" for s in sym],
                    f"prop_port_history([{', '.join(sym)}], 2, port_kind={kind})",
                ),
                cond=900,
                path=60,
                bound=f"ALL histories of {L} operations on a {nm} without rules/filter (must behave as a plain port), 2 consumers",
                symbolic=f"{L} operation codes",
                targets=T_PORT,
            )
        )
    # (b) filter
    N = 3 if quick else 5
    vs = [f"v{i}" for i in range(N)]
    out.append(
        Spec(
            name=f"filter_n{N}",
            group="(b) FilterTokenPort delivers exactly the admitted tokens plus termination",
            source=mk_source(
                IMPORTS,
                ", ".join(["n: int", "thr: int"] + [f"{v}: int" for v in vs]),
                [f"0 <= n <= {N}"],
                f"prop_filter([{', '.join(vs)}], n, thr, 0)",
            ),
            cond=600,
            bound=f"0..{N} tokens with unconstrained int values, predicate value >= thr with unconstrained thr; an early (blocking) and a late consumer",
            symbolic=f"n, threshold, {N} values",
            targets=T_FILTER,
        )
    )
    # (c) inter-workflow
    shapes = [(1, 2), (2, 2), (1, 3), (2, 3)] if quick else [(1, 2), (2, 2), (1, 3), (2, 3), (3, 3), (2, 4)]
    hi = 12
    for nr, npt in shapes:
        rs = [f"r{i}" for i in range(nr)]
        ss = [f"s{i}" for i in range(npt)]
        pre = [f"0 <= {x} <= {hi}" for x in rs + ss]
        pre += [f"{a} != {b}" for i, a in enumerate(rs) for b in rs[i + 1 :]]
        pre += [f"{a} != {b}" for i, a in enumerate(ss) for b in ss[i + 1 :]]
        out.append(
            Spec(
                name=f"inter_r{nr}_p{npt}",
                group="(c) boundary port receives the completing token exactly when the tag set is complete; adding the rule early or late commutes",
                source=mk_source(
                    IMPORTS,
                    ", ".join([f"{x}: int" for x in rs + ss] + ["action: int", "add_at: int"]),
                    pre + ["1 <= action <= 3", f"0 <= add_at <= {npt}"],
                    f"prop_inter([{', '.join(rs)}], action, [{', '.join(ss)}], add_at)",
                ),
                cond=900 if quick else 3000,
                path=60,
                bound=f"rule with {nr} distinct tags, {npt} puts with distinct tags, tag components 0..{hi} (so 9/10 boundary inside), action in PROPAGATE/TERMINATE/both, rule added before put #add_at (0..{npt})",
                symbolic=f"{nr + npt} tag components, action, add position",
                targets=T_INTER,
            )
        )
        out.append(
            Spec(
                name=f"inter_self_r{nr}_p{npt}",
                group="(c') self-bound rule: no duplicate local delivery, termination right after the completing token",
                source=mk_source(
                    IMPORTS,
                    ", ".join([f"{x}: int" for x in rs + ss] + ["action: int"]),
                    pre + ["1 <= action <= 3"],
                    f"prop_inter([{', '.join(rs)}], action, [{', '.join(ss)}], 0, self_bound=True)",
                ),
                cond=900 if quick else 3000,
                path=60,
                bound=f"self-bound rule with {nr} distinct tags added before {npt} puts with distinct tags, components 0..{hi}, any action",
                symbolic=f"{nr + npt} tag components, action",
                targets=T_INTER,
            )
        )
    # (c'') two rules on one port (a self-bound and a foreign-bound rule may complete on the same put)
    for npt in (2,) if quick else (2, 3):
        ss = [f"s{i}" for i in range(npt)]
        pre = [f"0 <= {x} <= 3" for x in ["t1", "t2"] + ss]
        pre += [f"{a} != {b}" for i, a in enumerate(ss) for b in ss[i + 1 :]]
        out.append(
            Spec(
                name=f"inter_two_rules_p{npt}",
                group="(c'') two rules on one port: no duplicate local delivery, each boundary port served exactly at completion",
                source=mk_source(
                    IMPORTS,
                    ", ".join(["t1: int", "a1: int", "sb1: bool", "t2: int", "a2: int", "sb2: bool", "swap: bool"] + [f"{x}: int" for x in ss]),
                    pre + ["1 <= a1 <= 3", "1 <= a2 <= 3", "not (sb1 and sb2)"],
                    f"prop_inter2(t1, a1, sb1, t2, a2, sb2, [{', '.join(ss)}], swap)",
                ),
                cond=900 if quick else 3000,
                path=60,
                bound=f"two single-tag rules (tags symbolic 0..3, possibly equal), each self-bound or bound to its own port (symbolic, at most one self-bound: the failure manager never registers two self-bound rules on a port), any action, registered in either order before {npt} puts with distinct symbolic tags 0..3",
                symbolic="2 rule tags, 2 actions, 2 self-bound flags, registration order, put tags",
                targets=T_INTER,
            )
        )
    return out
