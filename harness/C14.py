"""C14 — Hardware / Storage arithmetic is consistent.

Real code executed symbolically (CrossHair): Hardware.__init__/__add__/__sub__/__or__/
__ior__/normalized/_normalize_storage/satisfies/is_normalized/get_size/get_mount_point,
_reduce_storages, Storage.__init__/__add__/__sub__/__or__/__ior__.

Second engine (lib/smtx.py): the same source text is read with inspect/ast at run time,
executed by a path-enumerating symbolic evaluator with amounts as unbounded SMT Reals and
the verification conditions are discharged by z3 AND cvc5 (both must answer unsat).
Plus three IEEE-754 (QF_FP, binary64, RNE) envelope lemmas as plain SMT-LIB.
"""

from __future__ import annotations

import os

from lib.runner import Spec, mk_source

LEVEL = "other"
EXPLANATION = (
    "Storage-map SHAPES (how many storages, which share a mount point, which dict keys alias or cross mount "
    "points, paths, binds) are enumerated concretely up to renaming of mount points; every AMOUNT (cores, memory, "
    "each size) is an unbounded non-negative z3 Int owned by the solver. Laws: L1 a+b has per-mount sums and "
    "(a+b)-b restores a's per-mount amounts (0 on b-only mounts), operands untouched; L2 normalized() is "
    "normalised, keeps cores/memory/per-mount totals (also read through get_size(path)) and is idempotent; "
    "L3 a.satisfies(b) is True exactly when cores, memory and every mount point of b are <= in a (never True and "
    "only WorkflowExecutionException when b has a mount point a lacks); L4 (secondary) `|` keeps keys and "
    "max-merges sizes per key. The same laws are re-proved by an independent engine (lib/smtx: AST of the /repo "
    "source -> SMT, amounts as unbounded Reals, z3 and cvc5 must both say unsat, encoding validated against the "
    "real functions on >=200 concrete inputs per run), and three QF_FP lemmas (z3 and cvc5) give the envelope inside "
    "which the laws are exact for Python floats: an exact sum round-trips, and integer-valued doubles up to 2^52 add / subtract exactly."
)
ASSUMPTIONS = [
    "CrossHair obligations: amounts are exact non-negative integers (unbounded z3 Int). Fractional amounts are covered as exact rationals (SMT Real) by the smtx obligations, and as IEEE-754 doubles ONLY by the QF_FP envelope lemmas: (a+b)-b == a is false for some fractional doubles (0.1, 0.2) in any float implementation and is not raised as a violation",
    "Hardware() / Hardware(storage={}) substitutes the default {'/': Storage('/', 0.0)}; the CrossHair harness builds it through the real constructor, checks its structure and then replaces the float 0.0 by the int 0 (int/float mixing sends CrossHair to FP sorts and does not converge); smtx keeps the 0.0 (exact Real 0); int+float mixing of real runs is inside the QF_FP integer-valued lemmas",
    "storage-map shapes are enumerated up to renaming of mount points (the code only tests mount points for equality / uses them as dict keys): 0..3 (quick) / 0..4 (thorough) storages per Hardware over at most 3 distinct mount points in the pair, three key modes per Hardware (key == mount point for the first storage of each mount; every key an alias; keys CROSSED = named after a different mount point); both operands use the same key mode",
    "paths and bind values are concrete per shape; the laws are stated on amounts, paths are only observed through get_size(path)/get_mount_point(path) of a normalised Hardware (the normal form shares its `paths` set objects with the operand: not asserted either way)",
    "a - b for a b-only mount point is outside the statement (the code returns +b there); only (a+b)-b is claimed",
    "satisfies(): when the requirement has a mount point the capacity lacks, both outcomes that are not 'satisfied' are accepted (False, or WorkflowExecutionException as test_hardware expects); any other exception is a violation",
    "stub (CrossHair only): the error message of satisfies() formats both operands; Hardware/Storage.__repr__ return a constant and Hardware.__ch_deep_realize__ returns self, because CrossHair realises every formatted object (each unbounded amount would be enumerated). The message text is not part of the property",
    "Storage rejection of a negative size formats the size into the message, so under CrossHair that path is checked for 0 <= x < y <= 12 (quick) / 40 (thorough) only; smtx covers it for all reals (exception arguments are not evaluated there)",
    "L4 (`|`, secondary, not in the statement): keys and mount points are opaque to the merge, shapes are taken up to renaming (a owns the first keys, b takes any keys in any order; 1..2 / 1..3 storages); cores and memory of a|b are not asserted (the code adds them; the documentation only describes the storage merge)",
    "smtx: Python ints -> SMT Int, amounts -> SMT Real (exact rationals, not doubles); exception arguments (f-strings calling __repr__) are not evaluated; pruned decisions are sign facts about linear terms over the non-negative amounts and are re-proved by both solvers; anything outside the supported Python subset makes the translator refuse (status error); the encoding is compared with the real functions on >= 200 concrete inputs per run (test_hardware values + a grid seeded by VERIF_SEED)",
    "QF_FP lemmas are about IEEE-754 binary64 with round-to-nearest-even, which is what CPython floats use on the supported platforms; exactness of a sum is expressed as 'rounding up and rounding down coincide'",
]

MOUNTS = ("/", "/tmp", "/data")
T_HW = (
    "streamflow.core.scheduling.Hardware.__init__",
    "streamflow.core.scheduling.Hardware.__add__",
    "streamflow.core.scheduling.Hardware.__sub__",
    "streamflow.core.scheduling.Hardware._normalize_storage",
    "streamflow.core.scheduling._reduce_storages",
    "streamflow.core.scheduling.Storage.__init__",
    "streamflow.core.scheduling.Storage.__add__",
    "streamflow.core.scheduling.Storage.__sub__",
)
T_NORM = (
    "streamflow.core.scheduling.Hardware.normalized",
    "streamflow.core.scheduling.Hardware._normalize_storage",
    "streamflow.core.scheduling.Hardware.is_normalized",
    "streamflow.core.scheduling.Hardware.get_size",
    "streamflow.core.scheduling.Hardware.get_mount_point",
    "streamflow.core.scheduling.Hardware.get_storage",
    "streamflow.core.scheduling._reduce_storages",
    "streamflow.core.scheduling.Storage.__init__",
    "streamflow.core.scheduling.Storage.__add__",
)
T_SAT = (
    "streamflow.core.scheduling.Hardware.satisfies",
    "streamflow.core.scheduling.Hardware._normalize_storage",
    "streamflow.core.scheduling._reduce_storages",
    "streamflow.core.scheduling.Storage.__init__",
    "streamflow.core.scheduling.Storage.__add__",
)
T_OR = (
    "streamflow.core.scheduling.Hardware.__or__",
    "streamflow.core.scheduling.Hardware.__ior__",
    "streamflow.core.scheduling.Storage.__ior__",
    "streamflow.core.scheduling.Storage.__or__",
)
T_ST = (
    "streamflow.core.scheduling.Storage.__init__",
    "streamflow.core.scheduling.Storage.__add__",
    "streamflow.core.scheduling.Storage.__sub__",
    "streamflow.core.scheduling.Storage.__or__",
    "streamflow.core.scheduling.Storage.__ior__",
)

# ---------------------------------------------------------------- shapes (concrete)
# A storage-map shape is a tuple of (key, mount_point, paths, bind), in dict insertion order.


def _rgs(n: int, maxb: int):
    """restricted growth strings of length n with at most maxb blocks (set partitions)."""
    out = []

    def rec(prefix, nb):
        if len(prefix) == n:
            out.append(tuple(prefix))
            return
        for b in range(min(nb + 1, maxb)):
            rec(prefix + [b], max(nb, b + 1))

    rec([], 0)
    return out


def _keys(mounts, mode: int, tag: str):
    """dict keys for storages mounted on `mounts` (list of str) under a key mode."""
    keys = []
    for j, m in enumerate(mounts):
        if mode == 0:  # plain: first storage of a mount is keyed by the mount point
            k = m if m not in keys else f"{tag}{j}"
        elif mode == 1:  # alias: no key is a mount point
            k = f"{tag}{j}"
        else:  # crossed: keyed by the name of a DIFFERENT mount point when one is free
            k = next((x for x in MOUNTS if x != m and x not in keys), f"{tag}{j}")
        keys.append(k)
    return keys


def _shape(mounts, mode: int, tag: str):
    keys = _keys(mounts, mode, tag)
    out = []
    for j, (k, m) in enumerate(zip(keys, mounts)):
        base = m.rstrip("/")
        if j % 3 == 0:
            paths = ()
        elif j % 3 == 1:
            paths = (f"{base}/{tag}{j}",)
        else:
            paths = (f"{base}/{tag}{j}", f"{base}/{tag}{j}/sub")
        bind = f"/host/{tag}{j}" if j % 2 == 1 else None
        out.append((k, m, paths, bind))
    return tuple(out)


def _pair_mounts(na: int, nb: int, maxb: int = 3):
    """All (mounts_a, mounts_b) up to renaming. n == 0 means the default Hardware storage
    (one implicit storage on '/'), whose block is therefore named '/'."""
    la, lb = max(na, 1), max(nb, 1)
    out = []
    for g in _rgs(la + lb, maxb):
        implicit = ([0] if na == 0 else []) + ([la] if nb == 0 else [])
        blocks = {g[i] for i in implicit}
        if len(blocks) > 1:
            continue  # both defaults live on '/'
        names = {}
        free = list(MOUNTS)
        if blocks:
            names[blocks.pop()] = "/"
            free.remove("/")
        for b in g:
            if b not in names:
                names[b] = free.pop(0)
        ma = [names[b] for b in g[:la]] if na else []
        mb = [names[b] for b in g[la:]] if nb else []
        out.append((tuple(ma), tuple(mb)))
    return out


# NOTE: every table below is a nested LIST indexed by small concrete ints: under CrossHair a dict
# lookup with a tuple key costs ~0.1 s (the tracer cannot prove the key deeply concrete).
_PAIR_CACHE: list = [[None] * 6 for _ in range(6)]


def pair_shapes(na: int, nb: int):
    """list over shape index s of list over key mode km (0..2) of (shape_a, shape_b)."""
    row = _PAIR_CACHE[na]
    if row[nb] is None:
        row[nb] = [[(_shape(ma, km, "a"), _shape(mb, km, "b")) for km in range(3)] for ma, mb in _pair_mounts(na, nb)]
    return row[nb]


_SINGLE_CACHE: list = [None] * 6


def single_shapes(n: int):
    if _SINGLE_CACHE[n] is None:
        if n == 0:
            ms = [()]
        else:
            ms = [tuple(MOUNTS[b] for b in g) for g in _rgs(n, 3)]
        _SINGLE_CACHE[n] = [[_shape(m, km, "a") for km in range(3)] for m in ms]
    return _SINGLE_CACHE[n]


# `|` works on KEYS: shapes are (key, mount) lists with distinct keys per Hardware. Keys and
# mount points are opaque to the merge, so shapes are taken up to renaming: a owns the first
# keys of OR_KEYS in order and its first storage is on '/'; b takes any keys in any order.
OR_KEYS = ("/", "k1", "/tmp", "k3")
OR_MOUNTS = ("/", "/tmp")
_OR_CACHE: list = [[[None] * 6 for _ in range(6)] for _ in range(6)]


def or_shapes(na: int, nb: int, nk: int):
    """shape pairs for `|` with keys drawn from OR_KEYS[:nk]."""
    import itertools

    if _OR_CACHE[na][nb][nk] is None:

        def hw(n, tag):
            out = []
            key_sets = [OR_KEYS[:n]] if tag == "a" else itertools.permutations(OR_KEYS[:nk], n)
            for keys in key_sets:
                for ms in itertools.product(OR_MOUNTS, repeat=n):
                    if tag == "a" and ms[0] != OR_MOUNTS[0]:
                        continue
                    out.append(
                        tuple(
                            (k, m, (f"{m.rstrip('/')}/{tag}{j}",) if j % 2 else (), None)
                            for j, (k, m) in enumerate(zip(keys, ms))
                        )
                    )
            return out

        _OR_CACHE[na][nb][nk] = [(a, b) for a in hw(na, "a") for b in hw(nb, "b")]
    return _OR_CACHE[na][nb][nk]


# flat case lists (one symbolic index selects the case inside an obligation)
_CASES: list = [[None] * 6 for _ in range(3)]


def pair_cases(maxn: int):
    """[(na, nb, s)] for all na, nb <= maxn."""
    if _CASES[0][maxn] is None:
        _CASES[0][maxn] = [
            (na, nb, s) for na in range(maxn + 1) for nb in range(maxn + 1) for s in range(len(pair_shapes(na, nb)))
        ]
    return _CASES[0][maxn]


def single_cases(maxn: int):
    if _CASES[1][maxn] is None:
        _CASES[1][maxn] = [(n, s) for n in range(maxn + 1) for s in range(len(single_shapes(n)))]
    return _CASES[1][maxn]


def or_cases(maxn: int):
    if _CASES[2][maxn] is None:
        _CASES[2][maxn] = [
            (na, nb, s)
            for na in range(1, maxn + 1)
            for nb in range(1, maxn + 1)
            for s in range(len(or_shapes(na, nb, maxn + 1)))
        ]
    return _CASES[2][maxn]


# ---------------------------------------------------------------- helpers


def _mk(shape, cores, memory, sizes):
    """Build a real Hardware from a shape and (symbolic) amounts."""
    from streamflow.core.scheduling import Hardware, Storage

    if not shape:
        hw = Hardware(cores, memory, {})
        # the default storage: exactly one '/' volume of size 0.0 -> int 0 (see ASSUMPTIONS)
        if list(hw.storage.keys()) != [os.sep]:
            raise AssertionError("default storage map is not {'/': ...}")
        d = hw.storage[os.sep]
        if d.mount_point != os.sep or d.size != 0 or d.paths or d.bind is not None:
            raise AssertionError("default storage is not an empty '/' volume")
        d.size = 0
        return hw
    st = {}
    for (k, m, paths, bind), s in zip(shape, sizes):
        st[k] = Storage(m, s, set(paths), bind)
    return Hardware(cores, memory, st)


def _stub_repr():
    """stub: the error message of satisfies() is an f-string over both operands. CrossHair
    deep-realises every object that is formatted (each unbounded symbolic amount would be
    enumerated value by value) and repr() renders each amount digit by digit. The message
    text is not part of the property: repr is a constant and the CrossHair realisation hook
    returns the object itself."""
    from streamflow.core.scheduling import Hardware, Storage

    Hardware.__repr__ = lambda self: "Hardware(<stub>)"
    Storage.__repr__ = lambda self: "Storage(<stub>)"
    Hardware.__ch_deep_realize__ = lambda self, memo: self


def _totals(shape, sizes):
    """reference: mount point -> total amount (plain dict)."""
    if not shape:
        return {os.sep: 0}
    d = {}
    for (k, m, paths, bind), s in zip(shape, sizes):
        d[m] = d[m] + s if m in d else s
    return d


def _snap(hw):
    ds = list(hw.storage.values())
    return (
        hw.cores,
        hw.memory,
        list(hw.storage.items()),
        [d.size for d in ds],
        [(d.mount_point, set(d.paths), d.bind) for d in ds],
    )


def _same(x, y) -> bool:
    return x is y or x == y


def _unchanged(hw, snap) -> bool:
    """same cores / memory, same Storage objects under the same keys in the same order, each
    with its size, mount point, paths and bind as before."""
    c, m, items, sizes, rest = snap
    if not (_same(hw.cores, c) and _same(hw.memory, m)):
        return False
    if list(hw.storage.items()) != items:  # Storage has no __eq__: identity
        return False
    ds = [d for _, d in items]
    if [(d.mount_point, d.paths, d.bind) for d in ds] != rest:
        return False
    for d, size in zip(ds, sizes):
        if not _same(d.size, size):
            return False
    return True


def _has_totals(hw, totals, cores, memory) -> bool:
    """hw is in normal form and carries exactly `totals` per mount point."""
    if not (_same(hw.cores, cores) or hw.cores == cores):
        return False
    if not (_same(hw.memory, memory) or hw.memory == memory):
        return False
    if set(hw.storage.keys()) != set(totals.keys()):
        return False
    for k, d in hw.storage.items():
        if d.mount_point != k:
            return False
        if not _same(d.size, totals[k]):
            return False
    return True


# ---------------------------------------------------------------- properties (CrossHair)


def prop_add_sub(na, nb, s, km, ca, ma, cb, mb, sa, sb) -> bool:
    """L1: a+b carries the per-mount sums; (a+b)-b restores a (0 on b-only mounts)."""
    sh_a, sh_b = pair_shapes(na, nb)[s][km]
    a = _mk(sh_a, ca, ma, sa)
    b = _mk(sh_b, cb, mb, sb)
    snap_a, snap_b = _snap(a), _snap(b)
    ta, tb = _totals(sh_a, sa), _totals(sh_b, sb)
    tot = dict(ta)
    for m, v in tb.items():
        tot[m] = tot[m] + v if m in tot else v
    ab = a + b
    if not _has_totals(ab, tot, ca + cb, ma + mb):
        return False
    r = ab - b
    back = {m: (ta[m] if m in ta else 0) for m in tot}
    if not _has_totals(r, back, ca, ma):
        return False
    # the sum itself must survive the subtraction, and the operands both operations
    if not _has_totals(ab, tot, ca + cb, ma + mb):
        return False
    return _unchanged(a, snap_a) and _unchanged(b, snap_b)


def prop_sub_add(na, nb, s, km, ca, ma, cb, mb, sa, sb) -> bool:
    """L1' (mirror of L1, the form the scheduler evaluates: capacity - used): when b fits in a
    (every mount point of b is one of a, amounts <=), a-b carries the per-mount differences of
    the per-mount TOTALS of a (a may hold several storages / aliasing keys on one mount point),
    and (a-b)+b restores the per-mount totals of a; operands untouched."""
    sh_a, sh_b = pair_shapes(na, nb)[s][km]
    ta, tb = _totals(sh_a, sa), _totals(sh_b, sb)
    for m in tb:
        if m not in ta:
            return True
    if ca < cb or ma < mb:
        return True
    for m in tb:
        if ta[m] < tb[m]:
            return True
    a = _mk(sh_a, ca, ma, sa)
    b = _mk(sh_b, cb, mb, sb)
    snap_a, snap_b = _snap(a), _snap(b)
    d = a - b
    diff = {m: (ta[m] - tb[m] if m in tb else ta[m]) for m in ta}
    if not _has_totals(d, diff, ca - cb, ma - mb):
        return False
    r = d + b
    if not _has_totals(r, ta, ca, ma):
        return False
    return _unchanged(a, snap_a) and _unchanged(b, snap_b)


def prop_normalized(n, s, km, c, m, sizes) -> bool:
    """L2: normalized() is normal, keeps totals, is idempotent; operand untouched."""
    sh = single_shapes(n)[s][km]
    a = _mk(sh, c, m, sizes)
    snap = _snap(a)
    t = _totals(sh, sizes)
    x = a.normalized()
    if not x.is_normalized() or not _has_totals(x, t, c, m):
        return False
    # per-mount totals as the scheduler reads them: by mount point and by registered path
    for k, mp, paths, bind in sh:
        if not _same(x.get_size(mp), t[mp]):
            return False
        for p in paths:
            if x.get_mount_point(p) != mp or not _same(x.get_size(p), t[mp]):
                return False
    y = x.normalized()
    if not y.is_normalized() or not _has_totals(y, t, c, m):
        return False
    for k, mp, paths, bind in sh:
        for p in paths:
            if y.get_mount_point(p) != mp:
                return False
    # is_normalized() itself: true iff every key is its storage's mount point
    if sh and a.is_normalized() != all(k == mp for k, mp, _, _ in sh):
        return False
    return _unchanged(a, snap) and _has_totals(x, t, c, m)


def prop_satisfies(na, nb, s, km, ca, ma, cb, mb, sa, sb) -> bool:
    """L3: a.satisfies(b) <=> cores, memory and every mount point of b are <= in a."""
    from streamflow.core.exception import WorkflowExecutionException

    _stub_repr()
    sh_a, sh_b = pair_shapes(na, nb)[s][km]
    a = _mk(sh_a, ca, ma, sa)
    b = _mk(sh_b, cb, mb, sb)
    snap_a, snap_b = _snap(a), _snap(b)
    ta, tb = _totals(sh_a, sa), _totals(sh_b, sb)
    missing = [m for m in tb if m not in ta]
    try:
        got = a.satisfies(b)
    except WorkflowExecutionException:
        got = None
    if not (_unchanged(a, snap_a) and _unchanged(b, snap_b)):
        return False
    if missing:
        # a lacks a mount point of the requirement: never satisfied (False or the documented error)
        return got is None or got is False
    if got is None:
        return False
    want = True
    if ca < cb or ma < mb:
        want = False
    else:
        for m in tb:
            if ta[m] < tb[m]:
                want = False
                break
    return got is want or got == want


def prop_or(nk, na, nb, s, ca, ma, cb, mb, sa, sb) -> bool:
    """L4 (secondary): a|b keeps the keys and max-merges sizes key by key; ArithmeticError iff
    a common key names two different mount points; a and b untouched."""
    sh_a, sh_b = or_shapes(na, nb, nk)[s]
    a = _mk(sh_a, ca, ma, sa)
    b = _mk(sh_b, cb, mb, sb)
    snap_a, snap_b = _snap(a), _snap(b)
    da = {k: (m, x) for (k, m, _, _), x in zip(sh_a, sa)}
    db = {k: (m, x) for (k, m, _, _), x in zip(sh_b, sb)}
    clash = any(k in da and da[k][0] != db[k][0] for k in db)
    try:
        r = a | b
    except ArithmeticError:
        return clash and _unchanged(a, snap_a) and _unchanged(b, snap_b)
    if clash:
        return False
    keys = list(da) + [k for k in db if k not in da]
    if list(r.storage.keys()) != keys:
        return False
    for k in keys:
        d = r.storage[k]
        if k in da and k in db:
            x, y = da[k][1], db[k][1]
            if d.mount_point != da[k][0] or not (d.size == (x if x >= y else y)):
                return False
        else:
            mp, x = da[k] if k in da else db[k]
            if d.mount_point != mp or not _same(d.size, x):
                return False
    return _unchanged(a, snap_a) and _unchanged(b, snap_b)


def _pick(g, lo, hi) -> int:
    """concrete value of the symbolic index g in [lo, hi): bisection, one cheap fork per step
    (indexing a list with a symbolic int is far more expensive in CrossHair)."""
    while hi - lo > 1:
        mid = (lo + hi) // 2
        if g < mid:
            hi = mid
        else:
            lo = mid
    return lo


def prop_add_sub_case(maxn, lo, hi, g, km, ca, ma, cb, mb, sa, sb) -> bool:
    na, nb, s = pair_cases(maxn)[_pick(g, lo, hi)]
    return prop_add_sub(na, nb, s, _pick(km, 0, 3), ca, ma, cb, mb, sa[:na], sb[:nb])


def prop_sub_add_case(maxn, lo, hi, g, km, ca, ma, cb, mb, sa, sb) -> bool:
    na, nb, s = pair_cases(maxn)[_pick(g, lo, hi)]
    return prop_sub_add(na, nb, s, _pick(km, 0, 3), ca, ma, cb, mb, sa[:na], sb[:nb])


def prop_satisfies_case(maxn, lo, hi, g, km, ca, ma, cb, mb, sa, sb) -> bool:
    na, nb, s = pair_cases(maxn)[_pick(g, lo, hi)]
    return prop_satisfies(na, nb, s, _pick(km, 0, 3), ca, ma, cb, mb, sa[:na], sb[:nb])


def prop_normalized_case(maxn, lo, hi, g, km, c, m, sizes) -> bool:
    n, s = single_cases(maxn)[_pick(g, lo, hi)]
    return prop_normalized(n, s, _pick(km, 0, 3), c, m, sizes[:n])


def prop_or_case(maxn, lo, hi, g, ca, ma, cb, mb, sa, sb) -> bool:
    na, nb, s = or_cases(maxn)[_pick(g, lo, hi)]
    return prop_or(maxn + 1, na, nb, s, ca, ma, cb, mb, sa[:na], sb[:nb])


def prop_storage(i, j, x, y) -> bool:
    """Storage kernels +, |, |= and the (a+b)-b round trip on mount points MOUNTS[i], MOUNTS[j]."""
    from streamflow.core.scheduling import Storage

    i, j = _pick(i, 0, 3), _pick(j, 0, 3)
    a = Storage(MOUNTS[i], x, {"/p"})
    b = Storage(MOUNTS[j], y, None, "/host")
    for op in ("add", "or", "ior", "roundtrip"):
        c = a
        try:
            if op == "add":
                r = a + b
            elif op == "or":
                r = a | b
            elif op == "ior":
                c = Storage(MOUNTS[i], x, {"/p"})
                r = c.__ior__(b)
                if r is not c:
                    return False
            else:
                r = (a + b) - b
        except ArithmeticError:
            if i == j:
                return False
            continue
        if i != j:
            return False  # different mount points must be rejected
        if r.mount_point != MOUNTS[i]:
            return False
        if op == "add" and not (r.size == x + y):
            return False
        if op in ("or", "ior") and not (r.size == (x if x >= y else y)):
            return False
        if op == "roundtrip" and not (r.size == x):
            return False
        if not (_same(a.size, x) and _same(b.size, y)):
            return False
    return True


def prop_storage_sub(i, j, x, y) -> bool:
    """Storage.__sub__: x - y, rejected (WorkflowExecutionException) exactly when negative; a
    negative size is also rejected by the constructor."""
    from streamflow.core.exception import WorkflowExecutionException
    from streamflow.core.scheduling import Storage

    i, j = _pick(i, 0, 3), _pick(j, 0, 3)
    a = Storage(MOUNTS[i], x, {"/p"})
    b = Storage(MOUNTS[j], y, None, "/host")
    try:
        r = a - b
        if i != j or x < y:
            return False
        if not (r.size == x - y and r.mount_point == MOUNTS[i]):
            return False
    except ArithmeticError:
        if i == j:
            return False
    except WorkflowExecutionException:
        if not (i == j and x < y):
            return False
    try:
        Storage(MOUNTS[i], x - y - 1)
    except WorkflowExecutionException:
        return x - y - 1 < 0
    return x - y - 1 >= 0


# ---------------------------------------------------------------- obligations

IMPORTS = "from harness.C14 import *"


def _amount_params(na, nb):
    a = [f"a{i}" for i in range(na)]
    b = [f"b{i}" for i in range(nb)]
    return a, b


def _tup(vs):
    return "(" + "".join(v + ", " for v in vs) + ")"


def _chunks(n, size):
    return [(lo, min(n, lo + size)) for lo in range(0, n, size)]


def _wchunks(weights, budget):
    """consecutive index ranges whose weights sum to about `budget`."""
    out, lo, acc = [], 0, 0
    for i, w in enumerate(weights):
        acc += w
        if acc >= budget:
            out.append((lo, i + 1))
            lo, acc = i + 1, 0
    if lo < len(weights):
        out.append((lo, len(weights)))
    return out


# ================================================================ part B: smtx (AST -> SMT, z3 + cvc5)
# Drivers below are ordinary Python in the subset lib/smtx.py translates; the operators in
# them dispatch to the /repo methods, whose SOURCE is read and translated at run time.

SMTX_MODULES = ("streamflow.core.scheduling", "harness.C14")
PROP = "C14"


def _k_add_sub(a, b):
    ab = a + b
    return (ab, ab - b)


def _k_norm(a):
    x = a.normalized()
    return (x, x.normalized(), a.is_normalized(), x.is_normalized())


def _k_sat(a, b):
    return a.satisfies(b)


def _k_or(a, b):
    return a | b


def _k_storage(a, b, op):
    if op == 0:
        return a + b
    if op == 1:
        return a - b
    if op == 2:
        return a | b
    if op == 3:
        a |= b
        return a
    return (a + b) - b


def _mk_real(shape, cores, memory, sizes):
    from streamflow.core.scheduling import Hardware, Storage

    if not shape:
        return Hardware(cores, memory, {})
    return Hardware(cores, memory, {k: Storage(m, x, set(paths), bind) for (k, m, paths, bind), x in zip(shape, sizes)})


def _mk_sym(it, shape, cores, memory, sizes):
    from streamflow.core.scheduling import Hardware, Storage

    st = {}
    for (k, m, paths, bind), x in zip(shape, sizes):
        st[k] = it.call(Storage, [m, x, set(paths), bind])
    return it.call(Hardware, [cores, memory, st])


# ---- formula helpers (values are python data or z3 terms)


def _conj(*xs):
    import z3

    sym = []
    for x in xs:
        if isinstance(x, z3.ExprRef):
            sym.append(x)
        elif not x:
            return False
    if not sym:
        return True
    return z3.And(*sym)


def _eq(x, y):
    import z3

    from lib import smtx

    if isinstance(x, z3.ExprRef) or isinstance(y, z3.ExprRef):
        a, b = smtx._arith_pair(x, y)
        return a == b
    return x == y


def _f_totals(rec, totals, cores, memory):
    st = rec.attrs["storage"]
    if set(st.keys()) != set(totals.keys()):
        return False
    return _conj(
        _eq(rec.attrs["cores"], cores),
        _eq(rec.attrs["memory"], memory),
        *[_conj(d.attrs["mount_point"] == k, _eq(d.attrs["size"], totals[k])) for k, d in st.items()],
    )


def _f_snap(rec):
    return (
        rec.attrs["cores"],
        rec.attrs["memory"],
        [(k, d, d.attrs["mount_point"], d.attrs["size"], frozenset(d.attrs["paths"]), d.attrs["bind"]) for k, d in rec.attrs["storage"].items()],
    )


def _f_unchanged(rec, snap):
    c, m, items = snap
    st = rec.attrs["storage"]
    if list(st.keys()) != [i[0] for i in items]:
        return False
    parts = [_eq(rec.attrs["cores"], c), _eq(rec.attrs["memory"], m)]
    for k, d, mp, size, paths, bind in items:
        cur = st[k]
        parts.append(cur is d and cur.attrs["mount_point"] == mp and cur.attrs["bind"] == bind and frozenset(cur.attrs["paths"]) == paths)
        parts.append(_eq(cur.attrs["size"], size))
    return _conj(*parts)


class _Law:
    """One law over one concrete shape instance: how to run it symbolically / natively."""

    def __init__(self, law, shapes, label):
        self.law, self.shapes, self.label = law, shapes, label
        n = [len(sh) for sh in shapes]
        self.names = []
        for t, k in zip("ab", n):
            self.names += [f"c{t}", f"m{t}"] + [f"{t}{i}" for i in range(k)]

    def split(self, vals):
        """dict name -> value  =>  [(cores, memory, sizes)] per hardware"""
        out = []
        for t, sh in zip("ab", self.shapes):
            out.append((vals[f"c{t}"], vals[f"m{t}"], tuple(vals[f"{t}{i}"] for i in range(len(sh)))))
        return out

    def driver(self):
        return {"addsub": _k_add_sub, "sat": _k_sat, "norm": _k_norm, "or": _k_or}[self.law]

    def thunk(self, V):
        def run(it, ctx):
            hws = [_mk_sym(it, sh, c, m, sz) for sh, (c, m, sz) in zip(self.shapes, self.split(V))]
            ctx["hw"] = hws
            ctx["snap"] = [_f_snap(h) for h in hws]
            return it.call(self.driver(), hws)

        return run

    def real(self, vals):
        from streamflow.core.scheduling import Hardware, Storage

        from lib import smtx

        try:
            hws = [_mk_real(sh, c, m, sz) for sh, (c, m, sz) in zip(self.shapes, self.split(vals))]
            r = self.driver()(*hws)
        except Exception as e:
            return ("raise", type(e).__name__)
        return ("return", smtx.obs((r, hws), (Hardware, Storage)))

    @staticmethod
    def observe(path):
        from lib import smtx

        return smtx.obs((path.value, path.ctx["hw"]))

    def prop(self, path, V):
        """formula: the law holds on this path."""
        from streamflow.core.exception import WorkflowExecutionException

        if "hw" not in path.ctx or len(path.ctx["hw"]) != len(self.shapes):
            return False  # construction of the operands failed: must be infeasible
        hws, snaps = path.ctx["hw"], path.ctx["snap"]
        sp = self.split(V)
        tots = [_totals(sh, sz) for sh, (c, m, sz) in zip(self.shapes, sp)]
        same = _conj(*[_f_unchanged(h, sn) for h, sn in zip(hws, snaps)])
        if self.law == "addsub":
            if path.kind != "return":
                return False
            (ca, ma, _), (cb, mb, _) = sp
            ta, tb = tots
            tot = dict(ta)
            for m, v in tb.items():
                tot[m] = tot[m] + v if m in tot else v
            ab, r = path.value
            back = {m: (ta[m] if m in ta else 0) for m in tot}
            return _conj(_f_totals(ab, tot, ca + cb, ma + mb), _f_totals(r, back, ca, ma), same)
        if self.law == "norm":
            if path.kind != "return":
                return False
            (c, m, _), = sp
            x, y, a_norm, x_norm = path.value
            sh = self.shapes[0]
            want_norm = all(k == mp for k, mp, _, _ in sh) if sh else True
            paths_ok = True
            for h in (x, y):
                for k, mp, paths, bind in sh:
                    for p_ in paths:
                        if p_ not in h.attrs["storage"][mp].attrs["paths"]:
                            paths_ok = False
            return _conj(
                _f_totals(x, tots[0], c, m), _f_totals(y, tots[0], c, m), a_norm is want_norm, x_norm is True, paths_ok, same
            )
        if self.law == "sat":
            (ca, ma, _), (cb, mb, _) = sp
            ta, tb = tots
            missing = [m for m in tb if m not in ta]
            if path.kind == "raise":
                return _conj(bool(missing), path.exc is WorkflowExecutionException, same)
            got = path.value
            if not isinstance(got, bool):
                return False
            if missing:
                return _conj(got is False, same)
            import z3

            want = z3.And(ca >= cb, ma >= mb, *[ta[m] >= tb[m] for m in tb])
            return _conj(want if got else z3.Not(want), same)
        if self.law == "or":
            import z3

            sh_a, sh_b = self.shapes
            da = {k: (m, x) for (k, m, _, _), x in zip(sh_a, sp[0][2])}
            db = {k: (m, x) for (k, m, _, _), x in zip(sh_b, sp[1][2])}
            clash = any(k in da and da[k][0] != db[k][0] for k in db)
            if path.kind == "raise":
                return _conj(clash and path.exc is ArithmeticError, same)
            if clash:
                return False
            r = path.value
            keys = list(da) + [k for k in db if k not in da]
            st = r.attrs["storage"]
            if list(st.keys()) != keys:
                return False
            parts = [same]
            for k in keys:
                d = st[k]
                if k in da and k in db:
                    x, y = da[k][1], db[k][1]
                    parts.append(d.attrs["mount_point"] == da[k][0])
                    parts.append(_eq(d.attrs["size"], z3.If(x >= y, x, y)))
                else:
                    mp, x = da[k] if k in da else db[k]
                    parts.append(d.attrs["mount_point"] == mp)
                    parts.append(_eq(d.attrs["size"], x))
            return _conj(*parts)
        raise AssertionError(self.law)

    def native_call(self, args, vals) -> str:
        """python expression replaying this instance natively through the CrossHair property."""
        sp = self.split(vals)
        if self.law == "norm":
            n, s, km = args
            c, m, sz = sp[0]
            return f"prop_normalized({n}, {s}, {km}, {c!r}, {m!r}, {sz!r})"
        (ca, ma, sa), (cb, mb, sb) = sp
        if self.law == "or":
            nk, na, nb, s = args
            return f"prop_or({nk}, {na}, {nb}, {s}, {ca!r}, {ma!r}, {cb!r}, {mb!r}, {sa!r}, {sb!r})"
        na, nb, s, km = args
        fn = "prop_add_sub" if self.law == "addsub" else "prop_satisfies"
        return f"{fn}({na}, {nb}, {s}, {km}, {ca!r}, {ma!r}, {cb!r}, {mb!r}, {sa!r}, {sb!r})"


def _instances(law, maxn, lo, hi):
    """[(native args, _Law)] of one obligation: cases lo..hi-1 of the flat case list."""
    out = []
    if law == "norm":
        for n, s in single_cases(maxn)[lo:hi]:
            for km in range(3):
                out.append(((n, s, km), _Law(law, (single_shapes(n)[s][km],), f"norm n={n} s={s} km={km}")))
    elif law == "or":
        for na, nb, s in or_cases(maxn)[lo:hi]:
            out.append(((maxn + 1, na, nb, s), _Law(law, or_shapes(na, nb, maxn + 1)[s], f"or {na}x{nb} s={s} keys={maxn + 1}")))
    else:
        for na, nb, s in pair_cases(maxn)[lo:hi]:
            for km in range(3):
                out.append(((na, nb, s, km), _Law(law, pair_shapes(na, nb)[s][km], f"{law} {na}x{nb} s={s} km={km}")))
    return out


GRID = [0, 0, 1, 1, 2, 3, 5, 7, 16, 1024, 2**12, 2**15, 2**20, 2**40]


def _grid_value(rnd):
    from fractions import Fraction

    v = Fraction(rnd.choice(GRID))
    r = rnd.random()
    if r < 0.25:
        v = v + Fraction(rnd.choice([1, 2, 3]), 4)  # dyadic fractions: exact in floats as well
    elif r < 0.35:
        v = v / 8
    return v


def _test_hardware_inputs(law):
    """the values of tests/test_scheduler.py::test_hardware, on the matching shapes (alias keys)."""
    main = {"ca": 16.0, "ma": 1024.0, "a0": float(2**20), "a1": float(2**12), "a2": float(2**15)}
    extra = {"cb": 5.0, "mb": 0.0, "b0": float(2**10)}
    want = (("/", "/", "/tmp"), ("/tmp",))
    out = []

    def mounts(sh):
        return tuple(x[1] for x in sh)

    if law in ("addsub", "sat"):
        # main (+/-/satisfies) extra
        for s, modes in enumerate(pair_shapes(3, 1)):
            if mounts(modes[1][0]) == want[0] and mounts(modes[1][1]) == want[1]:
                out.append(((3, 1, s, 1), {**main, **extra}))
    if law == "sat":
        # secondary = main + extra (normal form) against main, both directions, as in the test
        sec = {"/": float(2**20 + 2**12), "/tmp": float(2**15 + 2**10)}
        for s, modes in enumerate(pair_shapes(2, 3)):
            if mounts(modes[1][0]) == ("/", "/tmp") and mounts(modes[1][1]) == want[0]:
                out.append(((2, 3, s, 1), {"ca": 21.0, "ma": 1024.0, "a0": sec["/"], "a1": sec["/tmp"], "cb": 16.0, "mb": 1024.0,
                                           "b0": main["a0"], "b1": main["a1"], "b2": main["a2"]}))
        for s, modes in enumerate(pair_shapes(3, 2)):
            if mounts(modes[1][0]) == want[0] and mounts(modes[1][1]) == ("/", "/tmp"):
                out.append(((3, 2, s, 1), {"ca": 16.0, "ma": 1024.0, "a0": main["a0"], "a1": main["a1"], "a2": main["a2"],
                                           "cb": 21.0, "mb": 1024.0, "b0": sec["/"], "b1": sec["/tmp"]}))
        # main without its /tmp volume against secondary: the documented error
        for s, modes in enumerate(pair_shapes(2, 2)):
            if mounts(modes[1][0]) == ("/", "/") and mounts(modes[1][1]) == ("/", "/tmp"):
                out.append(((2, 2, s, 1), {"ca": 16.0, "ma": 1024.0, "a0": main["a0"], "a1": main["a1"],
                                           "cb": 16.0, "mb": 1024.0, "b0": sec["/"], "b1": float(2**15)}))
    if law == "norm":
        for s, modes in enumerate(single_shapes(3)):
            if mounts(modes[1]) == want[0]:
                out.append(((3, s, 1), {"ca": 16.0, "ma": 1024.0, "a0": main["a0"], "a1": main["a1"], "a2": main["a2"]}))
    return out


def _violation(name, call, detail):
    """native replay of a solver model through the CrossHair property function."""
    import subprocess
    import sys

    from lib.runner import PY, REPLAYS, ROOT, _env

    d = os.path.join(REPLAYS, PROP)
    os.makedirs(d, exist_ok=True)
    path = os.path.join(d, f"{name}.py")
    with open(path, "w") as f:
        f.write(
            "#!/usr/bin/env python\n"
            f'"""Stand-alone native replay of an smtx (z3+cvc5) counterexample. property={PROP} obligation={name}\n'
            f"Run with: /verif/.venv/bin/python {path}\nExit 1 = the property is violated by the current code on this input.\n\"\"\"\n"
            "import sys, traceback\n"
            f"sys.path.insert(0, {ROOT!r})\n"
            "from fractions import Fraction\n"
            "from harness.C14 import *\n"
            "try:\n"
            f"    r = {call}\n"
            "except Exception:\n"
            "    traceback.print_exc()\n"
            '    print("REPLAY: exception => violated")\n'
            "    sys.exit(1)\n"
            'print("REPLAY: harness returned", r)\n'
            "sys.exit(0 if r else 1)\n"
        )
    p = subprocess.run([PY, path], cwd=ROOT, capture_output=True, text=True, timeout=300, env=_env())
    log = (p.stdout + p.stderr)[-800:]
    if p.returncode == 1:
        return {"status": "violated", "replay": path, "cex": call, "replay_log": log, "detail": detail}
    return {"status": "error", "cex": call, "detail": "solver model does not reproduce natively (encoding problem): " + detail + " | " + log[-300:]}


def _model_values(model, variables):
    from fractions import Fraction

    import z3

    vals = {}
    for n, var in variables.items():
        v = model.eval(var, model_completion=True)
        f = Fraction(v.as_long()) if z3.is_int_value(v) else Fraction(v.as_fraction())
        vals[n] = int(f) if f.denominator == 1 else f
    return vals


def smt_law(name, law, maxn, lo, hi, n_valid, per_query=120):
    """One smtx obligation: cases lo..hi-1 of a law's flat case list, amounts unbounded Reals >= 0."""
    import random

    import z3

    from lib import smtx

    seed = int(os.environ.get("VERIF_SEED", "0") or 0)
    insts = _instances(law, maxn, lo, hi)
    variables: dict = {}
    encs = []
    used: set = set()
    npaths = 0
    for args, lw in insts:
        V = {n: variables.setdefault(n, z3.Real(n)) for n in lw.names}
        paths, fu = smtx.explore(lw.thunk(V), SMTX_MODULES, nonneg=set(lw.names))
        used |= fu
        npaths += len(paths)
        encs.append((args, lw, V, paths))
    # ---- translation validation: the encoding against the real functions on concrete inputs
    rnd = random.Random(f"{seed}/{name}")
    tests = [(a, v) for a, v in _test_hardware_inputs(law) if any(a == e[0] for e in encs)]
    n_fixed = len(tests)
    while len(tests) < n_fixed + n_valid:
        args, lw, V, paths = encs[rnd.randrange(len(encs))]
        tests.append((args, {n: _grid_value(rnd) for n in lw.names}))
    by_args = {e[0]: e for e in encs}
    for args, vals in tests:
        _, lw, V, paths = by_args[args]
        real = lw.real(vals)
        enc = smtx.eval_encoding(paths, V, vals, lw.observe)
        if real != enc:
            return {"status": "error", "detail": f"translation validation FAILED on {lw.label} {vals}: real={real!r} encoding={enc!r}"[:1500]}
    # ---- verification conditions: one query per group of instances (cvc5 degrades on one huge disjunction)
    pre = [v >= 0 for v in variables.values()]
    groups, wit = [], []
    for k, (args, lw, V, paths) in enumerate(encs):
        if k % per_query == 0:
            groups.append(([], []))
        bad, labels = groups[-1]
        for lab, f in smtx.vc_disjuncts(paths, lambda p: lw.prop(p, V)):
            if z3.is_false(f):
                continue
            bad.append(f)
            labels.append((args, lw, lab))
        wit += [z3.And(*p.pc) if p.pc else z3.BoolVal(True) for p in paths if p.kind == "return"]
    d = smtx.smt_dir(PROP)
    out = {
        "solvers": {},
        "encoded_paths": npaths,
        "functions": sorted(used),
        "validated_inputs": len(tests),
    }
    tz = tc = 0.0
    ndis = sum(len(b) for b, _ in groups)

    def detail():
        return (
            f"{len(insts)} shape instances, {npaths} paths, {ndis} VC disjuncts in {len(groups)} queries; encoding validated on "
            f"{len(tests)} concrete inputs ({n_fixed} from test_hardware); z3 {round(tz, 1)}s cvc5 {round(tc, 1)}s"
        )

    for qi, (bad, labels) in enumerate(groups):
        if not bad:
            continue
        res = smtx.run_solvers(smtx.to_smt2(pre + [z3.Or(*bad)]), os.path.join(d, f"{name}__q{qi}.smt2"))
        tz, tc = tz + res["z3_s"], tc + res["cvc5_s"]
        out["solvers"] = {"z3": res["z3"], "cvc5": res["cvc5"], "query": qi}
        v = smtx.verdict(res)
        if v == "unsat":
            continue
        out["detail"] = f"query {qi}: " + detail()
        if v == "sat":
            s = z3.Solver()
            s.add(*pre)
            s.add(z3.Or(*bad))
            if s.check() != z3.sat:
                out["status"] = "error"
                out["detail"] = "solvers said sat but no model could be rebuilt; " + out["detail"]
                return out
            mdl = s.model()
            for (args, lw, lab), f in zip(labels, bad):
                if z3.is_true(mdl.eval(f, model_completion=True)):
                    vals = _model_values(mdl, {n: variables[n] for n in lw.names})
                    out.update(_violation(name, lw.native_call(args, vals), f"{lw.label} {lab} model={vals}"))
                    return out
            out["status"] = "error"
            out["detail"] = "sat, but no disjunct is true in the model; " + out["detail"]
            return out
        out["status"] = v
        return out
    resw = smtx.run_solvers(smtx.to_smt2(pre + [z3.Or(*wit)]), os.path.join(d, name + "__witness.smt2"))
    out["solvers"] = {"z3": "unsat", "cvc5": "unsat", "queries": len(groups), "witness_z3": resw["z3"], "witness_cvc5": resw["cvc5"]}
    out["detail"] = detail()
    if smtx.verdict(resw) != "sat":
        out["status"] = "error"
        out["detail"] = "vacuous: the witness query (precondition and a normally returning path) is not sat for both solvers; " + out["detail"]
    else:
        out["status"] = "unsat"
    return out


def smt_storage(name, n_valid):
    """Storage kernels with symbolic mount points (Int identities) and Real sizes."""
    import random

    import z3

    from streamflow.core.exception import WorkflowExecutionException
    from streamflow.core.scheduling import Storage

    from lib import smtx

    seed = int(os.environ.get("VERIF_SEED", "0") or 0)
    ma, mb = z3.Ints("mnt_a mnt_b")
    x, y = z3.Reals("x y")
    variables = {"mnt_a": ma, "mnt_b": mb, "x": x, "y": y}
    pre = [x >= 0, y >= 0]
    encs = {}
    used: set = set()
    for op in range(5):

        def thunk(it, ctx, op=op):
            a = it.call(Storage, [ma, x, {"/p"}, None])
            b = it.call(Storage, [mb, y, None, "/host"])
            ctx["a"], ctx["b"] = a, b
            return it.call(_k_storage, [a, b, op])

        encs[op], fu = smtx.explore(thunk, SMTX_MODULES, nonneg={"x", "y"})
        used |= fu

    def observe(p):
        r, a, b = p.value, p.ctx["a"], p.ctx["b"]
        return (
            smtx.obs(r.attrs["size"]), _eq(r.attrs["mount_point"], a.attrs["mount_point"]), smtx.obs(r.attrs["paths"]), r.attrs["bind"],
            smtx.obs(a.attrs["size"]), smtx.obs(b.attrs["size"]), r is a,
        )

    def real(op, vals):
        try:
            a = Storage(int(vals["mnt_a"]), vals["x"], {"/p"}, None)
            b = Storage(int(vals["mnt_b"]), vals["y"], None, "/host")
            r = _k_storage(a, b, op)
        except Exception as e:
            return ("raise", type(e).__name__)
        return ("return", (smtx.obs(r.size), r.mount_point == a.mount_point, smtx.obs(r.paths), r.bind, smtx.obs(a.size), smtx.obs(b.size), r is a))

    rnd = random.Random(f"{seed}/{name}")
    tests = [(op, {"mnt_a": 0, "mnt_b": 0, "x": float(2**15), "y": float(2**10)}) for op in range(5)]
    while len(tests) < 5 + n_valid:
        tests.append((rnd.randrange(5), {"mnt_a": rnd.randrange(2), "mnt_b": rnd.randrange(2), "x": _grid_value(rnd), "y": _grid_value(rnd)}))
    for op, vals in tests:
        r, e = real(op, vals), smtx.eval_encoding(encs[op], variables, vals, observe)
        if r != e:
            return {"status": "error", "detail": f"translation validation FAILED on storage op {op} {vals}: real={r!r} encoding={e!r}"[:1500]}

    def prop(op, p):
        same = ma == mb
        if p.kind == "raise":
            if p.exc is ArithmeticError:
                return z3.Not(same)
            if p.exc is WorkflowExecutionException:
                return z3.And(same, x < y) if op == 1 else False
            return False
        r, a, b = p.value, p.ctx["a"], p.ctx["b"]
        want = {0: x + y, 1: x - y, 2: z3.If(x >= y, x, y), 3: z3.If(x >= y, x, y), 4: x}[op]
        parts = [same, _eq(r.attrs["mount_point"], ma), _eq(r.attrs["size"], want), _eq(b.attrs["size"], y)]
        if op == 1:
            parts.append(x >= y)
        if op == 3:
            parts.append(r is a)
        else:
            parts += [r is not a, _eq(a.attrs["size"], x)]
        return _conj(*parts)

    bad, labels, wit = [], [], []
    npaths = 0
    for op, paths in encs.items():
        npaths += len(paths)
        for lab, f in smtx.vc_disjuncts(paths, lambda p: prop(op, p)):
            if not z3.is_false(f):
                bad.append(f)
                labels.append((op, lab))
        wit += [z3.And(*p.pc) if p.pc else z3.BoolVal(True) for p in paths if p.kind == "return"]
    d = smtx.smt_dir(PROP)
    res = smtx.run_solvers(smtx.to_smt2(pre + [z3.Or(*bad)]), os.path.join(d, name + ".smt2"))
    resw = smtx.run_solvers(smtx.to_smt2(pre + [z3.Or(*wit)]), os.path.join(d, name + "__witness.smt2"))
    out = {
        "solvers": {"z3": res["z3"], "cvc5": res["cvc5"], "witness_z3": resw["z3"], "witness_cvc5": resw["cvc5"]},
        "encoded_paths": npaths,
        "functions": sorted(used),
        "validated_inputs": len(tests),
        "detail": f"5 kernels, {npaths} paths, {len(bad)} VC disjuncts; encoding validated on {len(tests)} concrete inputs; z3 {res['z3_s']}s cvc5 {res['cvc5_s']}s",
    }
    v = smtx.verdict(res)
    if v == "unsat":
        out["status"] = "unsat" if smtx.verdict(resw) == "sat" else "error"
        return out
    if v == "sat":
        s = z3.Solver()
        s.add(*pre)
        s.add(z3.Or(*bad))
        s.check()
        mdl = s.model()
        vals = _model_values(mdl, variables)
        i, j = (0, 0) if vals["mnt_a"] == vals["mnt_b"] else (0, 1)
        hit = [l for l, f in zip(labels, bad) if z3.is_true(mdl.eval(f, model_completion=True))]
        op = hit[0][0] if hit else -1
        fn = "prop_storage_sub" if op == 1 else "prop_storage"
        out.update(_violation(name, f"{fn}({i}, {j}, {vals['x']!r}, {vals['y']!r})", f"storage op {hit[:1]} model={vals}"))
        return out
    out["status"] = v
    return out


FP_PRELUDE = """(declare-const a (_ FloatingPoint 11 53))
(declare-const b (_ FloatingPoint 11 53))
(define-fun zero () (_ FloatingPoint 11 53) (_ +zero 11 53))
; 2^52 as a binary64 literal (biased exponent 1023+52)
(define-fun lim () (_ FloatingPoint 11 53) (fp #b0 #b10000110011 #x0000000000000))
(define-fun s () (_ FloatingPoint 11 53) (fp.add RNE a b))
(assert (not (fp.isNaN a)))
(assert (not (fp.isInfinite a)))
(assert (not (fp.isNaN b)))
(assert (not (fp.isInfinite b)))
(assert (fp.geq a zero))
(assert (fp.geq b zero))
"""
FP_LEMMAS = {
    # An addition is exact iff rounding its real value up and down gives the same double.
    "fp_exact_sum_roundtrip": (
        "binary64, RNE, a,b finite >= 0: if a+b is exact (RTP and RTN roundings coincide, result finite) then (a+b)-b == a",
        FP_PRELUDE
        + "(assert (not (fp.isInfinite s)))\n(assert (fp.eq (fp.add RTP a b) (fp.add RTN a b)))\n"
        "(assert (not (fp.eq (fp.sub RNE s b) a)))\n(check-sat)\n",
    ),
    "fp_integer_valued_sum": (
        "binary64, RNE, a,b integer-valued in [0, 2^52]: a+b is exact and integer-valued (so sums of integer amounts stay exact up to 2^52 and the round trip lemma applies)",
        FP_PRELUDE
        + "(assert (fp.leq a lim))\n(assert (fp.leq b lim))\n"
        "(assert (fp.eq (fp.roundToIntegral RNE a) a))\n(assert (fp.eq (fp.roundToIntegral RNE b) b))\n"
        "(assert (not (and (fp.eq (fp.add RTP a b) (fp.add RTN a b)) (fp.eq (fp.roundToIntegral RNE s) s))))\n(check-sat)\n",
    ),
    "fp_integer_valued_diff": (
        "binary64, RNE, a >= b integer-valued in [0, 2^53]: a-b is exact, integer-valued and non-negative",
        FP_PRELUDE
        + "(define-fun lim2 () (_ FloatingPoint 11 53) (fp #b0 #b10000110100 #x0000000000000))\n"
        "(assert (fp.leq a lim2))\n(assert (fp.leq b a))\n"
        "(assert (fp.eq (fp.roundToIntegral RNE a) a))\n(assert (fp.eq (fp.roundToIntegral RNE b) b))\n"
        "(assert (not (and (fp.eq (fp.sub RTP a b) (fp.sub RTN a b)) (fp.eq (fp.roundToIntegral RNE (fp.sub RNE a b)) (fp.sub RNE a b)) (fp.geq (fp.sub RNE a b) zero))))\n(check-sat)\n",
    ),
}


def smt_fp(name):
    from lib import smtx

    text = "(set-logic QF_FP)\n" + FP_LEMMAS[name][1]
    res = smtx.run_solvers(text, os.path.join(smtx.smt_dir(PROP), name + ".smt2"), timeout=900)
    # non-vacuity: the hypotheses alone (last assertion = negated conclusion dropped) must be sat
    lines = text.strip().split("\n")
    hyp = "\n".join(lines[:-2] + ["(check-sat)"]) + "\n"
    resw = smtx.run_solvers(hyp, os.path.join(smtx.smt_dir(PROP), name + "__witness.smt2"), timeout=900)
    v = smtx.verdict(res)
    out = {
        "solvers": {"z3": res["z3"], "cvc5": res["cvc5"], "witness_z3": resw["z3"], "witness_cvc5": resw["cvc5"]},
        "detail": f"z3 {res['z3_s']}s cvc5 {res['cvc5_s']}s",
        "status": v if v != "sat" else "error",
    }
    if v == "unsat" and smtx.verdict(resw) != "sat":
        out["status"] = "error"
        out["detail"] = "hypotheses not satisfiable for both solvers; " + out["detail"]
    if v == "sat":
        out["detail"] = "IEEE lemma refuted by both solvers (no native code involved; check the lemma text); " + out["detail"]
    return out


def _smt_spec(name, group, bound, symbolic, targets, func, args, timeout=1800.0):
    from lib import smtx

    return Spec(
        name=name,
        group=group,
        kind="smt",
        smt=lambda: smtx.in_subprocess("harness.C14", func, [name] + list(args), timeout=timeout),
        cond=60,
        bound=bound,
        symbolic=symbolic,
        targets=targets,
    )


def _smt_specs(tier):
    quick = tier == "quick"
    maxn = 3 if quick else 4
    maxo = 2 if quick else 3
    nv = 60 if quick else 40
    out = []
    G = "smtx (AST->SMT, unbounded Real amounts, z3 AND cvc5 unsat): "
    for law, targets, text, cases, per in (
        ("addsub", T_HW, "L1 (a+b)-b restores a per mount point", pair_cases(maxn), 400),
        ("sat", T_SAT, "L3 satisfies <=> componentwise <=", pair_cases(maxn), 400),
        ("norm", T_NORM, "L2 normalized() idempotent, totals preserved", single_cases(maxn), 400),
        ("or", T_OR, "L4 (secondary) | keeps keys and max-merges", or_cases(maxo), 400),
    ):
        mx = maxo if law == "or" else maxn
        for lo, hi in _chunks(len(cases), per):
            what = (
                f"0..{mx} storages" if law == "norm" else (f"1..{mx} keyed storages each" if law == "or" else f"a and b with 0..{mx} storages each")
            )
            out.append(
                _smt_spec(
                    f"smtx_{law}_c{lo}", G + text,
                    f"{what}; shape cases {lo}..{hi - 1} of {len(cases)}" + ("" if law == "or" else " x 3 key modes") + "; every amount any real >= 0",
                    "all amounts (SMT Real, unbounded)", targets, "smt_law", [law, mx, lo, hi, nv],
                )
            )
    out.append(
        _smt_spec(
            "smtx_storage", G + "Storage kernels",
            "two storages on ARBITRARY mount points (symbolic identities), sizes any real >= 0; +, -, |, |=, (a+b)-b",
            "2 mount identities (SMT Int), 2 sizes (SMT Real, unbounded)", T_ST, "smt_storage", [60],
        )
    )
    for nm, (text, _) in FP_LEMMAS.items():
        out.append(
            _smt_spec(
                nm, "IEEE-754 envelope lemmas (QF_FP, z3 AND cvc5 unsat)", text, "two binary64 values (all 2^128 bit patterns)",
                ("IEEE-754 binary64 fp.add / fp.sub (what CPython float + and - compute)",), "smt_fp", [], timeout=2000.0,
            )
        )
    return out


def specs(tier: str):
    quick = tier == "quick"
    maxn = 3 if quick else 4
    maxo = 2 if quick else 3
    out = []
    an = [f"a{i}" for i in range(maxn)]
    bn = [f"b{i}" for i in range(maxn)]
    # build the shape tables at import time of the generated file (natively, before tracing starts)
    warm = f"pair_cases({maxn}); single_cases({maxn}); or_cases({maxo})"

    # ---- L1 / L3 over pairs of shapes (flat case list, one symbolic case index per obligation)
    cases = pair_cases(maxn)
    for law, prop, targets, group, budget in (
        ("addsub", "prop_add_sub_case", T_HW, "L1 a+b = per-mount sums; (a+b)-b restores a; operands untouched", 400 if quick else 1500),
        ("subadd", "prop_sub_add_case", T_HW, "L1' b fits in a: a-b = per-mount differences of a's totals (a with aliasing keys / several storages per mount point); (a-b)+b restores a", 400 if quick else 1500),
        ("sat", "prop_satisfies_case", T_SAT, "L3 a.satisfies(b) <=> cores, memory, every mount point of b are <= in a", 300 if quick else 1000),
    ):
        weights = [2 + na + nb for na, nb, _ in cases]
        for lo, hi in _wchunks(weights, budget):
            nums = ["ca", "ma", "cb", "mb"] + an + bn
            params = ", ".join(f"{v}: int" for v in ["g", "km"] + nums)
            pre = [f"{lo} <= g < {hi}", "0 <= km < 3"] + [f"{v} >= 0" for v in nums]
            kinds = sorted({(na, nb) for na, nb, _ in cases[lo:hi]})
            out.append(
                Spec(
                    name=f"{law}_c{lo}",
                    group=group,
                    source=mk_source(
                        IMPORTS, params, pre, f"{prop}({maxn}, {lo}, {hi}, g, km, ca, ma, cb, mb, {_tup(an)}, {_tup(bn)})", extra=warm
                    ),
                    cond=900 if quick else 2400,
                    path=60,
                    bound=f"shape-pair cases {lo}..{hi - 1} of {len(cases)} (storages of a x b: {', '.join(f'{x}x{y}' for x, y in kinds)}; 0 = default '/' volume; "
                    "all partitions of the storages over <=3 mount points up to renaming), 3 key modes (plain/alias/crossed); every amount any integer >= 0",
                    symbolic=f"case index, key mode, {len(nums)} amounts (unbounded z3 Int >= 0; amounts beyond the case's storage count are unused)",
                    targets=targets,
                )
            )
    # ---- L2 over single shapes
    sc = single_cases(maxn)
    nums = ["c", "m"] + an
    out.append(
        Spec(
            name="norm_all",
            group="L2 normalized() is normal, keeps cores/memory/per-mount totals, idempotent",
            source=mk_source(
                IMPORTS,
                ", ".join(f"{v}: int" for v in ["g", "km"] + nums),
                [f"0 <= g < {len(sc)}", "0 <= km < 3"] + [f"{v} >= 0" for v in nums],
                f"prop_normalized_case({maxn}, 0, {len(sc)}, g, km, c, m, {_tup(an)})",
                extra=warm,
            ),
            cond=900,
            path=60,
            bound=f"0..{maxn} storages (0 = default), all {len(sc)} partitions over <=3 mount points, 3 key modes; amounts any integer >= 0",
            symbolic=f"case index, key mode, {len(nums)} amounts (unbounded z3 Int >= 0)",
            targets=T_NORM,
        )
    )
    # ---- L4 `|`
    oc = or_cases(maxo)
    ao, bo = an[:maxo], bn[:maxo]
    for lo, hi in _chunks(len(oc), 30 if quick else 60):
        nums = ["ca", "ma", "cb", "mb"] + ao + bo
        out.append(
            Spec(
                name=f"or_c{lo}",
                group="L4 (secondary) a|b keeps keys, max-merges sizes per key, ArithmeticError iff a key names two mount points",
                source=mk_source(
                    IMPORTS,
                    ", ".join(f"{v}: int" for v in ["g"] + nums),
                    [f"{lo} <= g < {hi}"] + [f"{v} >= 0" for v in nums],
                    f"prop_or_case({maxo}, {lo}, {hi}, g, ca, ma, cb, mb, {_tup(ao)}, {_tup(bo)})",
                    extra=warm,
                ),
                cond=900,
                path=60,
                bound=f"a and b with 1..{maxo} storages under distinct keys from {OR_KEYS[:maxo + 1]} on mount points from {OR_MOUNTS}, up to renaming "
                f"(a owns the first keys, b any keys in any order); cases {lo}..{hi - 1} of {len(oc)}; amounts any integer >= 0",
                symbolic=f"case index, {len(nums)} amounts (unbounded z3 Int >= 0)",
                targets=T_OR,
            )
        )
    # ---- Storage kernels
    g = "Storage kernels: + adds, - subtracts (negative rejected), | and |= take the max, different mount points -> ArithmeticError"
    out.append(
        Spec(
            name="storage_ops",
            group=g,
            source=mk_source(
                IMPORTS,
                "i: int, j: int, x: int, y: int",
                ["0 <= i < 3", "0 <= j < 3", "x >= 0", "y >= 0"],
                "prop_storage(i, j, x, y)",
            ),
            cond=300,
            bound="two storages on any of 3 mount points, sizes any integer >= 0",
            symbolic="2 mount indexes, 2 sizes (unbounded z3 Int >= 0)",
            targets=T_ST,
        )
    )
    out.append(
        Spec(
            name="storage_sub_nonneg",
            group=g,
            source=mk_source(
                IMPORTS,
                "i: int, j: int, x: int, y: int",
                ["0 <= i < 3", "0 <= j < 3", "x >= y", "y >= 0"],
                "prop_storage_sub(i, j, x, y)",
            ),
            cond=300,
            bound="two storages on any of 3 mount points, sizes any integers x >= y >= 0",
            symbolic="2 mount indexes, 2 sizes (unbounded z3 Int)",
            targets=T_ST,
        )
    )
    # the rejection path formats the (symbolic) negative size into the message: CrossHair
    # realises formatted ints value by value, hence the finite bound (unbounded: smtx obligations)
    hi = 12 if quick else 40
    out.append(
        Spec(
            name="storage_sub_negative",
            group=g,
            source=mk_source(
                IMPORTS,
                "i: int, j: int, x: int, y: int",
                ["0 <= i < 3", "0 <= j < 3", f"0 <= x < y <= {hi}"],
                "prop_storage_sub(i, j, x, y)",
            ),
            cond=300,
            bound=f"two storages on any of 3 mount points, sizes 0 <= x < y <= {hi}",
            symbolic="2 mount indexes, 2 sizes",
            targets=T_ST,
        )
    )
    return out + _smt_specs(tier)
