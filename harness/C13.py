"""C13 — jobs go to the first admissible declared target.

Real code executed symbolically: MatchingRule.eval, MatchingBindingFilter.__init__/get_targets,
DefaultScheduler.schedule (filter chain, one task per target in declared order),
_process_target/_is_valid/_allocate_job.
"""

from __future__ import annotations

from lib.runner import Spec, mk_source

LEVEL = "other"
EXPLANATION = (
    "(a) The real MatchingBindingFilter is built from a solver-owned rule structure (deployment, optional service, 0-2 port "
    "predicates with symbolic match strings) and applied to solver-owned targets and job input values; the result must be, AS A "
    "LIST, the declared targets that some rule admits, and the filter must raise exactly when none is admitted. The identity hash "
    "of Target objects (an address in CPython) is an environment variable owned by the solver. (b) The real DefaultScheduler on two "
    "deployments declared as ordered targets, with symbolic capacities/requirements, must place a job on the first declared "
    "target that is admissible at grant time, with and without a matching filter in front."
)
ASSUMPTIONS = [
    "Target defines no __hash__/__eq__, so hash(target) is its memory address: the harness replaces it by an arbitrary solver-chosen small integer per target, and binds the name `set` inside streamflow.deployment.filter.matching to a model of CPython's hash-slot iteration order (CrossHair models set as insertion-ordered, which would hide a dependence on hash order). Both are unobservable for code that keeps the declared order",
    "the predicates of one rule name distinct ports; deployment names from {'d0','d1','d2'}, services from {None,'s1','s2'}, ports {'p0','p1'} always present on the job, input values and match strings are solver-chosen from {'', 'a', 'b', '10'} (p1 may be the integer 10: implicit str() cast)",
    "(b) as C10: stub connectors, exact integer amounts, DetLoop; a job granted at a wake-up is checked only when it is the single request granted by that operation",
]
T_A = (
    "streamflow.deployment.filter.matching.MatchingRule.eval",
    "streamflow.deployment.filter.matching.MatchingBindingFilter.__init__",
    "streamflow.deployment.filter.matching.MatchingBindingFilter.get_targets",
)
T_B = (
    "streamflow.scheduling.scheduler.DefaultScheduler.schedule",
    "streamflow.scheduling.scheduler.DefaultScheduler._process_target",
    "streamflow.scheduling.scheduler.DefaultScheduler._is_valid",
    "streamflow.scheduling.scheduler.DefaultScheduler._allocate_job",
    "streamflow.scheduling.scheduler.DefaultScheduler._get_binding_filter",
) + T_A

DEPS = ["d0", "d1", "d2"]
SVCS = [None, "s1", "s2"]
PORTS = ["p0", "p1"]
STRS = ["", "a", "b", "10"]


def _pick(table, i):
    for k in range(len(table)):
        if i == k:
            return table[k]
    return table[0]


class SlotSet:
    """Model of CPython's set iteration order for a small table: elements are visited by
    hash-table slot (hash mod 8), ties by insertion. CrossHair itself models `set` as an
    insertion-ordered container, which would hide any dependence on hash order."""

    def __init__(self, it=()):
        self._items = []
        for x in it:
            self.add(x)

    def add(self, x):
        for y in self._items:
            if y is x or y == x:
                return
        self._items.append(x)

    def __len__(self):
        return len(self._items)

    def __contains__(self, x):
        return any(y is x or y == x for y in self._items)

    def __iter__(self):
        out = []
        for slot in range(8):
            for x in self._items:
                if x.__dict__.get("_vh", 0) % 8 == slot:
                    out.append(x)
        return iter(out)


class _HashPatch:
    """hash(Target) := harness-chosen value (the address-based default is arbitrary), and the
    name `set` inside the matching-filter module := SlotSet (hash-slot iteration order)."""

    def __enter__(self):
        import streamflow.deployment.filter.matching as mm
        from streamflow.core.deployment import Target

        self.T = Target
        self.mm = mm
        self.had = "__hash__" in Target.__dict__
        self.old = Target.__dict__.get("__hash__")
        Target.__hash__ = lambda s: s.__dict__.get("_vh", 0)
        mm.set = SlotSet
        return self

    def __exit__(self, *a):
        if self.had:
            self.T.__hash__ = self.old
        else:
            del self.T.__hash__
        if "set" in self.mm.__dict__:
            del self.mm.set
        return False


def _run_coro(coro):
    from lib.detloop import DetLoop

    loop = DetLoop()
    with loop:
        return loop.run_until_complete(coro)


def prop_filter(rules, targets, hashes, inputs) -> bool:
    """rules: list of (dep_idx, svc_idx, npred, [(port_idx, match)...]); targets: list of
    (dep_idx, svc_idx); hashes: per target int; inputs: [v_p0, v_p1] symbolic str."""
    from streamflow.core.deployment import DeploymentConfig, Target
    from streamflow.core.exception import WorkflowExecutionException
    from streamflow.core.workflow import Job, Token
    from streamflow.deployment.filter import MatchingBindingFilter

    cfg = []
    ref_rules = []
    for dep_i, svc_i, npred, preds in rules:
        dep, svc = _pick(DEPS, dep_i), _pick(SVCS, svc_i)
        job_preds = []
        rp = {}
        for k in range(2):
            if k < npred:
                port = _pick(PORTS, preds[k][0])
                m = _pick(STRS, preds[k][1])
                job_preds.append({"port": port, "match": m})
                rp[port] = m
        cfg.append({"target": dep if svc is None else {"deployment": dep, "service": svc}, "job": job_preds})
        ref_rules.append((dep, svc, rp))
    with _HashPatch():
        tg = []
        for (dep_i, svc_i), h in zip(targets, hashes):
            t = Target(deployment=DeploymentConfig(name=_pick(DEPS, dep_i), type="stub", config={}), service=_pick(SVCS, svc_i), workdir="/w")
            t._vh = h
            tg.append(t)
        job = Job(name="/s/0", workflow_id=1, inputs={"p0": Token(_pick(STRS, inputs[0])), "p1": Token(10 if inputs[1] == 3 else _pick(STRS, inputs[1]))}, input_directory=None, output_directory=None, tmp_directory=None)
        flt = MatchingBindingFilter(name="f", filters=cfg)
        expected = []
        for t in tg:
            keep = False
            for dep, svc, rp in ref_rules:
                if dep != t.deployment.name:
                    continue
                if svc is not None and svc != t.service:
                    continue
                ok = True
                for port, match in rp.items():
                    if match != str(job.inputs[port].value):
                        ok = False
                if ok:
                    keep = True
            if keep:
                expected.append(t)
        try:
            got = _run_coro(flt.get_targets(job, list(tg)))
        except WorkflowExecutionException:
            return len(expected) == 0
        if len(expected) == 0:
            return False
        if len(got) != len(expected):
            return False
        for a, b in zip(got, expected):
            if a is not b:
                return False
        return True


def prop_first_target(caps, reqs, prefix_status, ops, with_filter, hashes) -> bool:
    """Scheduler on topology two_deployments with declared targets (x, y)."""
    from harness import sched_lib as S
    from streamflow.core.config import BindingConfig
    from streamflow.core.deployment import FilterConfig, Target

    jobs = ["/s/0." + str(i) for i in range(len(reqs))]
    w = S.World("two_deployments", caps)
    order = ("x", "y")
    try:
        with _HashPatch(), w.loop:
            if with_filter:
                fc = FilterConfig(name="keep_all", type="matching", config={"filters": [{"target": "y", "job": []}, {"target": "x", "job": []}]})

                def mk_binding(names):
                    ts = []
                    for i, n in enumerate(names):
                        t = Target(deployment=w.deployments[n], locations=1, workdir="/wd")
                        t._vh = hashes[i]
                        ts.append(t)
                    return BindingConfig(targets=ts, filters=[fc])

                w.mk_binding = mk_binding
            for j, r in zip(jobs, reqs):
                w.reqs[j] = r
                w.binding[j] = order

            def free_fits(j):
                """which declared targets could host j now (excluding j's own reservation)."""
                out = []
                for dep in order:
                    loc = dep + "0"
                    cap = w.caps[loc]
                    c = m = d = 0
                    for k in w.active_on(loc):
                        if k != j:
                            c += w.reqs[k][0]
                            m += w.reqs[k][1]
                            d += w.reqs[k][2]
                    r = w.reqs[j]
                    out.append(c + r[0] <= cap[0] and m + r[1] <= cap[1] and d + r[2] <= cap[2])
                return out

            def step(j, op):
                if not w.allowed(j, op):
                    return True
                before = {k: (w.status(k), w.waiting(k)) for k in jobs}
                w.do(j, op)
                granted = []
                for k in jobs:
                    st, wt = before[k]
                    now_alloc = w.status(k) == S.FIREABLE and not w.waiting(k)
                    if now_alloc and (wt or (k == j and op == "S")):
                        granted.append(k)
                if len(granted) == 1:
                    k = granted[0]
                    fits = free_fits(k)
                    chosen = w.sched.job_allocations[k].target.deployment.name
                    first = None
                    for dep, f in zip(order, fits):
                        if f and first is None:
                            first = dep
                    if first is None or chosen != first:
                        return False
                return True

            for j, st in zip(jobs, prefix_status):
                for op in S.CANON[st]:
                    if not step(j, op):
                        return False
            nops = len(S.OPS)
            for code in ops:
                hit = None
                for ji in range(len(jobs)):
                    for k in range(nops):
                        if code == ji * nops + k:
                            hit = (jobs[ji], S.OPS[k])
                if hit is not None and not step(hit[0], hit[1]):
                    return False
            return True
    finally:
        w.close()


def prop_chain(nf, admits, cx, cy, rc, hashes) -> bool:
    """DefaultScheduler.schedule with a CHAIN of nf matching filters (admits[k] = (x admitted by filter k,
    y admitted by filter k)): the job is placed on the first declared target that survives EVERY filter of
    the chain and has room; if no target survives, schedule raises and nothing is allocated."""
    from harness import sched_lib as S
    from streamflow.core.config import BindingConfig
    from streamflow.core.deployment import FilterConfig, Target
    from streamflow.core.exception import WorkflowExecutionException

    k = 0
    for i in range(1, 4):
        if nf == i:
            k = i
    w = S.World("two_deployments", [(cx, 8, 8), (cy, 8, 8)])
    order = ("x", "y")
    job = "/s/0.0"
    try:
        with _HashPatch(), w.loop:
            fcs = []
            for i in range(k):
                rules = []
                # rules listed in reverse order of the declared targets: the output order must not follow them
                if admits[i][1]:
                    rules.append({"target": "y", "job": []})
                if admits[i][0]:
                    rules.append({"target": "x", "job": []})
                fcs.append(FilterConfig(name="f" + str(i), type="matching", config={"filters": rules}))

            def mk_binding(names):
                ts = []
                for i, n in enumerate(names):
                    t = Target(deployment=w.deployments[n], locations=1, workdir="/wd")
                    t._vh = hashes[i]
                    ts.append(t)
                return BindingConfig(targets=ts, filters=fcs)

            w.mk_binding = mk_binding
            w.reqs[job] = (rc, 1, 1)
            w.binding[job] = order
            survive = []
            for n, idx in (("x", 0), ("y", 1)):
                ok = True
                for i in range(k):
                    if not admits[i][idx]:
                        ok = False
                if ok:
                    survive.append(n)
            raised = False
            try:
                w.do(job, "S")
            except WorkflowExecutionException:
                raised = True
            alloc = w.sched.job_allocations.get(job)
            placed = alloc is not None and w.status(job) == S.FIREABLE and not w.waiting(job)
            if not survive:
                return raised and not placed
            if raised:
                return False
            room = {"x": rc <= cx, "y": rc <= cy}
            first = None
            for n in survive:
                if room[n] and first is None:
                    first = n
            if first is None:
                return not placed  # waits for resources
            return placed and alloc.target.deployment.name == first
    finally:
        w.close()


# ---------------------------------------------------------------- obligations

IMPORTS = "from harness.C13 import *"


def _fs(name, group_note, sym, rules, targets, hashes, inputs, cond=900):
    """sym: list of (name, lo, hi) symbolic ints; the other arguments are python-expression strings."""
    params = ", ".join(f"{n}: int" for n, _, _ in sym)
    pre = [f"{lo} <= {n} <= {hi}" for n, lo, hi in sym]
    call = f"prop_filter({rules}, {targets}, {hashes}, {inputs})"
    return Spec(
        name=name,
        group="(a) filter output is the list of admitted declared targets, in declared order",
        source=mk_source(IMPORTS, params, pre, call),
        cond=cond,
        path=60,
        bound=group_note + f"; symbolic: {[(n, lo, hi) for n, lo, hi in sym]} (deployment index into {DEPS}, service index into {SVCS}, port index into {PORTS}, string index into {STRS} where p1 index 3 is the integer 10)",
        symbolic=f"{len(sym)} ints",
        targets=T_A,
    )


def _filter_specs(quick):
    out = []
    # (1) one rule with two predicates against one target: predicate matching incl. str() cast
    out.append(
        _fs(
            "filter_predicates",
            "one rule (no service) with predicates on p0 and p1, one target",
            [("rd", 0, 1), ("m0", 0, 3), ("m1", 0, 3), ("td", 0, 1), ("v0", 0, 3), ("v1", 0, 3)],
            "[(rd, 0, 2, [(0, m0), (1, m1)])]",
            "[(td, 0)]",
            "[0]",
            "[v0, v1]",
        )
    )
    out.append(
        _fs(
            "filter_one_predicate",
            "one rule with one predicate on a symbolic port, one target",
            [("rd", 0, 1), ("pp", 0, 1), ("m0", 0, 3), ("td", 0, 1), ("v0", 0, 3), ("v1", 0, 3)],
            "[(rd, 0, 1, [(pp, m0)])]",
            "[(td, 0)]",
            "[0]",
            "[v0, v1]",
        )
    )
    # (2) deployment / service admission
    out.append(
        _fs(
            "filter_service",
            "one rule without predicates, one target: deployment and service admission",
            [("rd", 0, 2), ("rs", 0, 2), ("td", 0, 2), ("ts", 0, 2)],
            "[(rd, rs, 0, [])]",
            "[(td, ts)]",
            "[0]",
            "[1, 1]",
        )
    )
    # (3) any-rule semantics
    out.append(
        _fs(
            "filter_two_rules",
            "two rules (second with a predicate), one target: a target is kept iff SOME rule admits it",
            [("rd0", 0, 1), ("rs0", 0, 1), ("rd1", 0, 1), ("rs1", 0, 1), ("m1", 0, 1), ("td", 0, 1), ("ts", 0, 1), ("v0", 0, 1)],
            "[(rd0, rs0, 0, []), (rd1, rs1, 1, [(0, m1)])]",
            "[(td, ts)]",
            "[0]",
            "[v0, 1]",
        )
    )
    # (4) order preservation / raise iff empty
    for nt in (2, 3) if quick else (2, 3, 4):
        sym = [(f"td{i}", 0, 1) for i in range(nt)] + [(f"th{i}", 0, nt - 1) for i in range(nt)]
        out.append(
            _fs(
                f"filter_order_t{nt}",
                f"one rule admitting deployment d0, {nt} targets with symbolic deployment (admitted or not) and symbolic identity hashes",
                sym,
                "[(0, 0, 0, [])]",
                "[" + ", ".join(f"(td{i}, 0)" for i in range(nt)) + "]",
                "[" + ", ".join(f"th{i}" for i in range(nt)) + "]",
                "[1, 1]",
                cond=900 if nt < 4 else 3000,
            )
        )
    sym = [("rs", 0, 2)] + [(f"ts{i}", 0, 2) for i in range(3)] + [(f"th{i}", 0, 2) for i in range(3)]
    out.append(
        _fs(
            "filter_order_services",
            "one rule on d0 with symbolic service, 3 targets on d0 with symbolic services and symbolic identity hashes",
            sym,
            "[(0, rs, 0, [])]",
            "[(0, ts0), (0, ts1), (0, ts2)]",
            "[th0, th1, th2]",
            "[1, 1]",
        )
    )
    return out


def _sched_spec(prefix, L, with_filter, cond=900):
    from harness.sched_lib import OPS, ST_NAMES

    nj = len(prefix)
    params, pre = [], []
    caps = []
    for l in range(2):
        n = f"cc{l}"
        params.append(f"{n}: int")
        pre.append(f"0 <= {n} <= 64")
        caps.append(f"({n}, 0, 0)")
    reqs = []
    for j in range(nj):
        n = f"rc{j}"
        params.append(f"{n}: int")
        pre.append(f"0 <= {n} <= 64")
        reqs.append(f"({n}, 0, 0)")
    ops = [f"o{i}" for i in range(L)]
    params += [f"{o}: int" for o in ops]
    pre += [f"0 <= {o} < {nj * len(OPS)}" for o in ops]
    hs = ["0", "0"]
    if with_filter:
        params += ["h0: int", "h1: int"]
        pre += ["0 <= h0 <= 7", "0 <= h1 <= 7"]
        hs = ["h0", "h1"]
    call = f"prop_first_target([{', '.join(caps)}], [{', '.join(reqs)}], {list(prefix)!r}, [{', '.join(ops)}], {with_filter}, [{', '.join(hs)}])"
    pname = "".join(ST_NAMES[s][:2] for s in prefix)
    return Spec(
        name=f"first_target_{pname}_L{L}" + ("_filter" if with_filter else ""),
        group="(b) the scheduler places a job on the first declared target that is admissible",
        source=mk_source(IMPORTS, ", ".join(params), pre, call),
        cond=cond,
        path=90,
        bound=f"two deployments x, y declared in this order for {nj} jobs; canonical prefixes {[ST_NAMES[s] for s in prefix]}; {L} symbolic operations; core capacities and requirements symbolic 0..64"
        + ("; a matching filter that admits both targets is applied first, Target identity hashes symbolic" if with_filter else ""),
        symbolic=f"{len(params)} ints",
        targets=T_B,
    )


def specs(tier: str):
    from harness.sched_lib import COMPLETED, FIREABLE, NONE, ROLLBACK, RUNNING

    quick = tier == "quick"
    out = _filter_specs(quick)
    prefixes = [(NONE, NONE), (RUNNING, NONE), (FIREABLE, NONE)] if quick else [(NONE, NONE), (RUNNING, NONE), (FIREABLE, NONE), (RUNNING, RUNNING), (COMPLETED, NONE), (ROLLBACK, NONE), (RUNNING, FIREABLE)]
    for pr in prefixes:
        out.append(_sched_spec(pr, 2, False, cond=900 if quick else 3000))
    out.append(_sched_spec((RUNNING, RUNNING), 1, False, cond=900 if quick else 3000))
    out.append(_sched_spec((NONE, NONE), 1, True, cond=900 if quick else 3000))
    out.append(_sched_spec((RUNNING, NONE), 1, True, cond=900 if quick else 3000))
    out.append(
        Spec(
            name="filter_chain",
            group="(c) a job is placed only on targets that survive every filter of its binding, in order",
            source=mk_source(
                IMPORTS,
                "nf: int, a0x: bool, a0y: bool, a1x: bool, a1y: bool, a2x: bool, a2y: bool, cx: int, cy: int, rc: int, h0: int, h1: int",
                ["1 <= nf <= 3", "0 <= cx <= 8", "0 <= cy <= 8", "1 <= rc <= 8", "0 <= h0 <= 7", "0 <= h1 <= 7"],
                "prop_chain(nf, [(a0x, a0y), (a1x, a1y), (a2x, a2y)], cx, cy, rc, [h0, h1])",
            ),
            cond=900 if quick else 3000,
            path=90,
            bound="real DefaultScheduler.schedule, two deployments x, y declared in this order, one job; a chain of 1..3 matching filters, each admitting x and/or y (or nothing) by a solver bool; core capacities 0..8 and requirement 1..8 symbolic; Target identity hashes symbolic",
            symbolic="chain length, 6 admission bools, 3 ints, 2 hashes",
            targets=T_B + ("streamflow.deployment.filter.matching.MatchingBindingFilter.get_targets",),
        )
    )
    if not quick:
        out.append(_sched_spec((RUNNING, RUNNING, NONE), 2, False, cond=3000))
        out.append(_sched_spec((RUNNING, NONE), 2, True, cond=3000))
    return out
