"""C18 (part): FileToken.is_available — a file token is available iff it is recoverable and each of
its paths still exists on AT LEAST ONE of its primary data locations (a job whose outputs stayed
available on some location must not be re-executed). Real code: streamflow.workflow.token.FileToken.is_available
and _is_path_available; the file-system probe (StreamFlowPath.exists) and the data manager are stubs whose
answers are solver variables."""

from __future__ import annotations

from lib.runner import Spec, mk_source

T_FILE = ("streamflow.workflow.token.FileToken.is_available", "streamflow.workflow.token._is_path_available")


def prop_file_available(recoverable, nlocs, valid, broken) -> bool:
    """nlocs[p]: number of primary locations of path p (0..3); valid[p][i]: does path p exist on its
    i-th location; broken[p][i]: does the probe raise WorkflowExecutionException (counts as missing)."""
    from lib.detloop import DetLoop
    from lib.stubs import StubContext
    import streamflow.workflow.token as tk
    from streamflow.core.exception import WorkflowExecutionException
    from streamflow.workflow.token import FileToken

    paths = ["/data/p" + str(i) for i in range(len(nlocs))]

    class Loc:
        def __init__(self, p, i):
            self.path = paths[p]
            self.location = ("loc", p, i)
            self.p, self.i = p, i

    class DM:
        def __init__(self):
            self.invalidated = []

        def get_data_locations(self, path, deployment=None, location_name=None, data_type=None):
            p = paths.index(path)
            return [Loc(p, i) for i in range(3) if i < nlocs[p]]

        def invalidate_location(self, location, path):
            self.invalidated.append((location, path))

    class FakePath:
        def __init__(self, path, context=None, location=None):
            self.p, self.i = location[1], location[2]

        async def exists(self):
            if broken[self.p][self.i]:
                raise WorkflowExecutionException("probe failed")
            return valid[self.p][self.i]

    class FT(FileToken):
        async def get_paths(self, context):
            return list(paths)

    ctx = StubContext()
    ctx.data_manager = DM()
    orig = tk.StreamFlowPath
    tk.StreamFlowPath = FakePath
    try:
        loop = DetLoop()
        with loop:
            tok = FT(value="x", tag="0", recoverable=recoverable)
            got = loop.run_until_complete(tok.is_available(ctx))
    finally:
        tk.StreamFlowPath = orig
    want = recoverable
    if want:
        for p in range(len(nlocs)):
            some = False
            for i in range(3):
                if i < nlocs[p] and valid[p][i] and not broken[p][i]:
                    some = True
            if not some:
                want = False
    return got == want


def prop_composite_available(kind: int, n: int, flags, nested: bool) -> bool:
    """ListToken / ObjectToken .is_available == every element is available (an EMPTY list or object has
    lost nothing: available). Elements are plain Tokens whose availability is their recoverable flag; with
    `nested` the first element is itself a (one-element) list holding that token."""
    from lib.detloop import DetLoop
    from lib.stubs import StubContext
    from streamflow.core.workflow import Token
    from streamflow.workflow.token import ListToken, ObjectToken

    if Token(value=1, tag="0", recoverable=True).recoverable is not True:
        return False
    k = 0
    for i in range(4):
        if n == i:
            k = i
    elems = [Token(value=i, tag="0", recoverable=True if flags[i] else False) for i in range(k)]
    if nested and k > 0:
        elems[0] = ListToken(value=[elems[0]], tag="0")
    tok = ListToken(value=elems, tag="0") if kind == 0 else ObjectToken(value={"k" + str(i): e for i, e in enumerate(elems)}, tag="0")
    ctx = StubContext()
    with DetLoop() as loop:
        got = loop.run_until_complete(tok.is_available(ctx))
    want = True
    for i in range(k):
        if not flags[i]:
            want = False
    return got is want


T_COMP = ("streamflow.workflow.token.ListToken.is_available", "streamflow.workflow.token.ObjectToken.is_available", "streamflow.core.workflow.Token.is_available")


def file_specs(tier):
    out = [
        Spec(
            name="composite_available",
            group="FILE: list / object tokens are available iff every element is (an empty one is available)",
            source=mk_source(
                "from harness.C18_file import *",
                "kind: int, n: int, f0: bool, f1: bool, f2: bool, nested: bool",
                ["0 <= kind <= 1", "0 <= n <= 3"],
                "prop_composite_available(kind, n, [f0, f1, f2], nested)",
            ),
            cond=600,
            path=60,
            bound="ListToken or ObjectToken with 0..3 elements (plain Tokens, availability = recoverable flag, symbolic per element; optionally the first element wrapped in a one-element ListToken)",
            symbolic="kind, length, 3 availability flags, nesting flag",
            targets=T_COMP,
        )
    ]
    for npaths in (1,) if tier == "quick" else (1, 2):
        names = []
        params = ["rec: bool"]
        pre = []
        for p in range(npaths):
            params.append(f"n{p}: int")
            pre.append(f"0 <= n{p} <= 3")
            for i in range(3):
                params += [f"v{p}{i}: bool", f"b{p}{i}: bool"]
        nl = "[" + ", ".join(f"n{p}" for p in range(npaths)) + "]"
        va = "[" + ", ".join("[" + ", ".join(f"v{p}{i}" for i in range(3)) + "]" for p in range(npaths)) + "]"
        br = "[" + ", ".join("[" + ", ".join(f"b{p}{i}" for i in range(3)) + "]" for p in range(npaths)) + "]"
        out.append(
            Spec(
                name=f"file_available_p{npaths}",
                group="FILE: a file token is available iff every path survives on at least one primary location",
                source=mk_source("from harness.C18_file import *", ", ".join(params), pre, f"prop_file_available(rec, {nl}, {va}, {br})"),
                cond=900,
                path=60,
                bound=f"{npaths} path(s), 0..3 primary data locations per path, symbolic existence / probe failure per location, symbolic recoverable flag",
                symbolic=f"{len(params)} variables",
                targets=T_FILE,
            )
        )
    return out
