"""C28 — steps get the binding of their nearest bound ancestor.

Real code executed symbolically: WorkflowConfig.__init__ / _process_binding /
put / propagate / get, set_targets, _check_stacked_deployments
(streamflow/config/config.py) and get_binding_config, _get_workdir,
get_wraps_config (streamflow/deployment/utils.py) together with the
DeploymentConfig / Target / LocalTarget / WrapsConfig constructors.

The harness builds the `streamflow_config` mapping that `streamflow/main.py`
and `streamflow/cwl/runner.py` hand to `WorkflowConfig(name, config)` (the
parsed StreamFlow file) from solver variables.
"""

from __future__ import annotations

from lib.runner import Spec, mk_source

LEVEL = "other"
EXPLANATION = (
    "Three lemma groups over the real WorkflowConfig constructor and get_binding_config, fed with a StreamFlow-file "
    "mapping whose shape is owned by the solver: L1 the targets of a step are those of the step binding on the "
    "longest declared prefix path (component-wise, port bindings ignored, LocalTarget when none); L2 deployment/target "
    "workdir = own or first one along the wraps chain; L3 the constructor raises WorkflowDefinitionException iff the "
    "wraps relation has a cycle. The reference models are a linear scan over the list of bindings / a bounded walk."
)
ASSUMPTIONS = [
    "the StreamFlow file is given as the already parsed mapping (what SfValidator.validate_file returns); JSON-schema validation itself is not executed symbolically (the generated mappings are schema-valid, checked natively by selftest())",
    "path components are drawn from the alphabet {'a', 'ab'} ('/a' is a string prefix of '/ab' but not its ancestor); binding and step paths are normalised absolute posix paths with 0..3 components (0 = the root '/')",
    "when two step bindings declare the same path the statement (and the documentation) does not say which one applies: the oracle then accepts the targets of either; everything else about duplicates (e.g. a step and a port binding on the same path) is inside the claim",
    "port bindings carry a single target with the mandatory workdir (otherwise the constructor rejects the file, which is outside this property)",
    "every `deployment` named by a target or by `wraps` exists in `deployments` (dangling names raise KeyError; outside the claim); no scheduling policies / binding filters are declared",
    "workdir values are non-empty strings; at the end of a wraps chain without any workdir the oracle only demands deployment.workdir is None and the target workdir is a non-empty string (the built-in default), not a specific directory",
    "deployments are of a non-local connector type ('docker'); `wraps` is written in both accepted forms (plain name, {deployment, service})",
]

LETTERS = ("a", "ab")
MAXD = 3

T_CFG = (
    "streamflow.config.config.WorkflowConfig.__init__",
    "streamflow.config.config.WorkflowConfig._process_binding",
    "streamflow.config.config.WorkflowConfig.put",
    "streamflow.config.config.WorkflowConfig.propagate",
    "streamflow.config.config.WorkflowConfig.get",
    "streamflow.config.config.set_targets",
    "streamflow.config.config.WorkflowConfig._check_stacked_deployments",
)
T_BIND = (
    "streamflow.deployment.utils.get_binding_config",
    "streamflow.deployment.utils._get_workdir",
    "streamflow.deployment.utils.get_wraps_config",
    "streamflow.core.deployment.Target.__init__",
    "streamflow.core.deployment.LocalTarget.__init__",
    "streamflow.core.deployment.DeploymentConfig.__init__",
)

# ---------------------------------------------------------------- helpers


def _comps(depth, cs) -> tuple:
    """Concrete tuple of component strings from a symbolic depth and symbolic letter choices."""
    out = []
    for k in range(MAXD):
        if depth > k:
            out.append(LETTERS[1] if cs[k] else LETTERS[0])
    return tuple(out)


def _pstr(comps) -> str:
    s = ""
    for c in comps:
        s = s + "/" + c
    return s if s else "/"


def _file(bindings, deployments) -> dict:
    """The parsed StreamFlow file (same layout as tests/test_translator._get_streamflow_config)."""
    return {
        "version": "v1.0",
        "workflows": {
            "wf": {
                "type": "cwl",
                "config": {"file": "cwl/main.cwl", "settings": "cwl/config.yaml"},
                "bindings": bindings,
            }
        },
        "deployments": deployments,
    }


def _deployment(i, wraps=None, dict_form=False, workdir=False) -> dict:
    d = {"type": "docker", "config": {"image": "busybox"}}
    if wraps is not None:
        d["wraps"] = {"deployment": "d" + str(wraps), "service": "s" + str(i)} if dict_form else "d" + str(wraps)
    if workdir:
        d["workdir"] = "/wd/d" + str(i)
    return d


# ---------------------------------------------------------------- L1 nearest ancestor


def _ref_nearest(paths, kinds, q) -> list:
    """Indexes of the step bindings declared on the longest prefix (component-wise) of q."""
    best, cands = -1, []
    for i, p in enumerate(paths):
        if not kinds[i]:
            continue  # port bindings do not bind steps
        if len(p) <= len(q) and q[: len(p)] == p:
            if len(p) > best:
                best, cands = len(p), [i]
            elif len(p) == best:
                cands.append(i)
    return cands


def _binding(i, is_step, comps) -> dict:
    """Binding i: marker service 'b<i>t<j>'; odd bindings have two targets (list form)."""
    dep = "d" + str(i % 2)
    if not is_step:
        return {"port": _pstr(comps), "target": {"deployment": dep, "service": "b" + str(i) + "t0", "workdir": "/wd/p" + str(i)}}
    t0 = {"deployment": dep, "service": "b" + str(i) + "t0"}
    if i % 2 == 0:
        return {"step": _pstr(comps), "target": t0}
    return {"step": _pstr(comps), "target": [t0, {"deployment": "d0", "service": "b" + str(i) + "t1", "locations": 2}]}


def _targets_are(bc, i) -> bool:
    """bc.targets are exactly the targets declared by step binding i, in order."""
    ts = bc.targets
    if len(ts) != (1 if i % 2 == 0 else 2):
        return False
    if ts[0].deployment.name != "d" + str(i % 2) or ts[0].service != "b" + str(i) + "t0" or ts[0].locations != 1:
        return False
    if i % 2 == 1:
        if ts[1].deployment.name != "d0" or ts[1].service != "b" + str(i) + "t1" or ts[1].locations != 2:
            return False
    return True


def _is_local(bc) -> bool:
    from streamflow.core.deployment import LocalTarget

    ts = bc.targets
    return (
        len(ts) == 1
        and isinstance(ts[0], LocalTarget)
        and ts[0].deployment.name == "__LOCAL__"
        and ts[0].deployment.type == "local"
    )


def _check_query(wc, paths, kinds, q) -> bool:
    from streamflow.deployment.utils import get_binding_config

    bc = get_binding_config(_pstr(q), "step", wc)
    cands = _ref_nearest(paths, kinds, q)
    if not cands:
        return _is_local(bc)
    for i in cands:
        if _targets_are(bc, i):
            return True
    return False


def _all_queries(maxd):
    out = [()]
    for d in range(1, maxd + 1):
        out = out + [p + (c,) for p in out if len(p) == d - 1 for c in LETTERS]
    return out


def prop_nearest(bs, q) -> bool:
    """bs: per binding (is_step, depth, c0, c1, c2); q: (depth, c0, c1, c2) or an int = check every step path
    with at most that many components."""
    from pathlib import PurePosixPath

    from streamflow.config.config import WorkflowConfig

    kinds = [bool(b[0]) for b in bs]
    paths = [_comps(b[1], b[2:]) for b in bs]
    bindings = [_binding(i, kinds[i], paths[i]) for i in range(len(bs))]
    wc = WorkflowConfig("wf", _file(bindings, {"d0": _deployment(0), "d1": _deployment(1, workdir=True)}))
    # own path: `get` returns the declaration itself (as tests/test_translator uses it)
    for i, p in enumerate(paths):
        if kinds[i]:
            own = wc.get(PurePosixPath(_pstr(p)), "step")
            if own is None:
                return False
            same = [j for j in range(len(bs)) if kinds[j] and paths[j] == p]
            if not any(own["targets"][0].get("service") == "b" + str(j) + "t0" for j in same):
                return False
    if isinstance(q, tuple):
        return _check_query(wc, paths, kinds, _comps(q[0], q[1:]))
    for qq in _all_queries(q):
        if not _check_query(wc, paths, kinds, qq):
            return False
    return True


# ---------------------------------------------------------------- L2 workdir along the wraps chain


def _ref_cyclic(wraps) -> bool:
    """Some deployment reaches itself again by following `wraps` (-1 = no wraps)."""
    n = len(wraps)
    for start in range(n):
        cur = start
        for _ in range(n):
            cur = wraps[cur]
            if cur < 0:
                break
            if cur == start:
                return True
    return False


def _ref_workdir(wraps, wds, t):
    """Index of the first deployment with a workdir on the chain t, wraps[t], ... (None if there is none)."""
    cur = t
    for _ in range(len(wraps) + 1):
        if wds[cur]:
            return cur
        cur = wraps[cur]
        if cur < 0:
            return None
    return None


def prop_workdir(wraps, wds, t, twd, flip, below) -> bool:
    """Deployments d0..d(n-1), d<i> wraps d<wraps[i]> (or nothing if -1) and has a workdir iff wds[i]; one step
    binding on '/a' with a target on d<t> that has its own workdir iff twd; queried for '/a' or ('below') '/a/ab'."""
    from streamflow.config.config import WorkflowConfig
    from streamflow.deployment.utils import get_binding_config

    n = len(wraps)
    wraps = [int(w) for w in wraps]
    if _ref_cyclic(wraps):
        return True  # rejected files: lemma L3
    t = int(t)
    deployments = {}
    for i in range(n):
        deployments["d" + str(i)] = _deployment(
            i, wraps[i] if wraps[i] >= 0 else None, dict_form=((i % 2 == 1) != bool(flip)), workdir=bool(wds[i])
        )
    target = {"deployment": "d" + str(t)}
    if twd:
        target["workdir"] = "/wd/t"
    other = {"deployment": "d0", "workdir": "/wd/o"}
    wc = WorkflowConfig("wf", _file([{"step": "/a", "target": [target, other]}], deployments))
    bc = get_binding_config("/a/ab" if below else "/a", "step", wc)
    if len(bc.targets) != 2:
        return False
    tg = bc.targets[0]
    dc = tg.deployment
    if dc.name != "d" + str(t) or dc.type != "docker":
        return False
    # wraps is reported as declared
    if wraps[t] < 0:
        if dc.wraps is not None:
            return False
    else:
        if dc.wraps is None or dc.wraps.deployment != "d" + str(wraps[t]):
            return False
        if dc.wraps.service != (("s" + str(t)) if ((t % 2 == 1) != bool(flip)) else None):
            return False
    src = _ref_workdir(wraps, [bool(w) for w in wds], t)
    if src is None:
        if dc.workdir is not None:
            return False
    elif dc.workdir != "/wd/d" + str(src):
        return False
    if twd:
        if tg.workdir != "/wd/t":
            return False
    elif src is not None:
        if tg.workdir != "/wd/d" + str(src):
            return False
    elif not (isinstance(tg.workdir, str) and len(tg.workdir) > 0):
        return False
    # the second target keeps its own workdir whatever d0 inherits
    return bc.targets[1].workdir == "/wd/o" and bc.targets[1].deployment.name == "d0"


# ---------------------------------------------------------------- L3 cycle rejection


def prop_cycle(wraps, flip, wd0, bound) -> bool:
    """The constructor raises WorkflowDefinitionException iff the wraps relation has a cycle (whether or not any
    binding uses the deployments)."""
    from streamflow.config.config import WorkflowConfig
    from streamflow.core.exception import WorkflowDefinitionException

    n = len(wraps)
    wraps = [int(w) for w in wraps]
    deployments = {}
    for i in range(n):
        deployments["d" + str(i)] = _deployment(
            i, wraps[i] if wraps[i] >= 0 else None, dict_form=((i % 2 == 1) != bool(flip)), workdir=(i == 0 and bool(wd0))
        )
    bindings = [{"step": "/", "target": {"deployment": "d" + str(n - 1)}}] if bound else []
    try:
        WorkflowConfig("wf", _file(bindings, deployments))
    except WorkflowDefinitionException:
        return _ref_cyclic(wraps)
    return not _ref_cyclic(wraps)


# ---------------------------------------------------------------- native self test (not an obligation)


def selftest() -> None:
    """Natively: the generated mappings pass the real JSON-schema validation, and the props hold on a few inputs."""
    import copy

    from streamflow.config.validator import SfValidator

    v = SfValidator()
    v.validate(copy.deepcopy(_file([_binding(0, True, ("a",)), _binding(1, True, ()), _binding(2, False, ("a", "ab"))], {"d0": _deployment(0), "d1": _deployment(1, 0, True, True)})))
    v.validate(copy.deepcopy(_file([], {"d0": _deployment(0, 0, False, True)})))
    assert prop_nearest([(True, 1, False, False, False), (True, 0, False, False, False), (False, 2, False, True, False)], 3)
    assert prop_nearest([(True, 1, False, False, False), (True, 0, False, False, False)], (3, False, True, True))
    assert prop_workdir([1, 2, -1], [False, False, True], 0, False, False, True)
    assert prop_workdir([1, 2, -1], [False, False, False], 0, False, True, False)
    assert prop_cycle([1, 2, 0], False, True, True) and prop_cycle([-1, 0, 1], True, False, False) and prop_cycle([0], False, False, False)


# ---------------------------------------------------------------- obligations

IMPORTS = "from harness.C28 import *"


def specs(tier: str):
    return []
