"""C28 — steps get the binding of their nearest bound ancestor.

Real code executed symbolically: WorkflowConfig.__init__ / _process_binding /
put / propagate / get, set_targets, _check_stacked_deployments
(streamflow/config/config.py) and get_binding_config, _get_workdir,
get_wraps_config (streamflow/deployment/utils.py) together with the
DeploymentConfig / Target / LocalTarget / WrapsConfig constructors.

The harness builds the `streamflow_config` mapping that `streamflow/main.py`
and `streamflow/cwl/runner.py` hand to `WorkflowConfig(name, config)` (the
parsed StreamFlow file) from solver variables.
"""

from __future__ import annotations

from lib.runner import Spec, mk_source

LEVEL = "other"
EXPLANATION = (
    "Three lemma groups over the real WorkflowConfig constructor and get_binding_config, fed with a StreamFlow-file "
    "mapping whose shape is owned by the solver: L1 the targets of a step are those of the step binding on the "
    "longest declared prefix path (component-wise, port bindings ignored, LocalTarget when none); L2 deployment/target "
    "workdir = own or first one along the wraps chain; L3 the constructor raises WorkflowDefinitionException iff the "
    "wraps relation has a cycle. The reference models are a linear scan over the list of bindings / a bounded walk."
)
ASSUMPTIONS = [
    "the StreamFlow file is given as the already parsed mapping (what SfValidator.validate_file returns); JSON-schema validation itself is not executed symbolically (the generated mappings are schema-valid, checked natively by selftest())",
    "path components are drawn from the alphabet {'a', 'ab'} ('/a' is a string prefix of '/ab' but not its ancestor); binding and step paths are normalised absolute posix paths with 0..3 components (0 = the root '/')",
    "when two step bindings declare the same path the statement (and the documentation) does not say which one applies: the oracle then accepts the targets of either; everything else about duplicates (e.g. a step and a port binding on the same path) is inside the claim",
    "port bindings carry a single target with the mandatory workdir (otherwise the constructor rejects the file, which is outside this property)",
    "every `deployment` named by a target or by `wraps` exists in `deployments` (dangling names raise KeyError; outside the claim); no scheduling policies / binding filters are declared",
    "workdir values are non-empty strings; at the end of a wraps chain without any workdir the oracle only demands deployment.workdir is None and the target workdir is a non-empty string (the built-in default), not a specific directory",
    "deployments are of a non-local connector type ('docker'); `wraps` is written in both accepted forms (plain name, {deployment, service})",
]

LETTERS = ("a", "ab")
MAXD = 3

T_CFG = (
    "streamflow.config.config.WorkflowConfig.__init__",
    "streamflow.config.config.WorkflowConfig._process_binding",
    "streamflow.config.config.WorkflowConfig.put",
    "streamflow.config.config.WorkflowConfig.propagate",
    "streamflow.config.config.WorkflowConfig.get",
    "streamflow.config.config.set_targets",
    "streamflow.config.config.WorkflowConfig._check_stacked_deployments",
)
T_BIND = (
    "streamflow.deployment.utils.get_binding_config",
    "streamflow.deployment.utils._get_workdir",
    "streamflow.deployment.utils.get_wraps_config",
    "streamflow.core.deployment.Target.__init__",
    "streamflow.core.deployment.LocalTarget.__init__",
    "streamflow.core.deployment.DeploymentConfig.__init__",
)

# ---------------------------------------------------------------- helpers


def _comps(depth, cs) -> tuple:
    """Concrete tuple of component strings from a symbolic depth and symbolic letter choices."""
    out = []
    for k in range(MAXD):
        if depth > k:
            out.append(LETTERS[1] if cs[k] else LETTERS[0])
    return tuple(out)


def _pstr(comps) -> str:
    s = ""
    for c in comps:
        s = s + "/" + c
    return s if s else "/"


def _file(bindings, deployments) -> dict:
    """The parsed StreamFlow file (same layout as tests/test_translator._get_streamflow_config)."""
    return {
        "version": "v1.0",
        "workflows": {
            "wf": {
                "type": "cwl",
                "config": {"file": "cwl/main.cwl", "settings": "cwl/config.yaml"},
                "bindings": bindings,
            }
        },
        "deployments": deployments,
    }


def _deployment(i, wraps=None, dict_form=False, workdir=False) -> dict:
    d = {"type": "docker", "config": {"image": "busybox"}}
    if wraps is not None:
        d["wraps"] = {"deployment": "d" + str(wraps), "service": "s" + str(i)} if dict_form else "d" + str(wraps)
    if workdir:
        d["workdir"] = "/wd/d" + str(i)
    return d


# ---------------------------------------------------------------- L1 nearest ancestor


def _ref_nearest(paths, kinds, q) -> list:
    """Indexes of the step bindings declared on the longest prefix (component-wise) of q."""
    best, cands = -1, []
    for i, p in enumerate(paths):
        if not kinds[i]:
            continue  # port bindings do not bind steps
        if len(p) <= len(q) and q[: len(p)] == p:
            if len(p) > best:
                best, cands = len(p), [i]
            elif len(p) == best:
                cands.append(i)
    return cands


def _binding(i, is_step, comps) -> dict:
    """Binding i: marker service 'b<i>t<j>'; odd bindings have two targets (list form)."""
    dep = "d" + str(i % 2)
    if not is_step:
        return {"port": _pstr(comps), "target": {"deployment": dep, "service": "b" + str(i) + "t0", "workdir": "/wd/p" + str(i)}}
    t0 = {"deployment": dep, "service": "b" + str(i) + "t0"}
    if i % 2 == 0:
        return {"step": _pstr(comps), "target": t0}
    return {"step": _pstr(comps), "target": [t0, {"deployment": "d0", "service": "b" + str(i) + "t1", "locations": 2}]}


def _targets_are(bc, i) -> bool:
    """bc.targets are exactly the targets declared by step binding i, in order."""
    ts = bc.targets
    if len(ts) != (1 if i % 2 == 0 else 2):
        return False
    if ts[0].deployment.name != "d" + str(i % 2) or ts[0].service != "b" + str(i) + "t0" or ts[0].locations != 1:
        return False
    if i % 2 == 1:
        if ts[1].deployment.name != "d0" or ts[1].service != "b" + str(i) + "t1" or ts[1].locations != 2:
            return False
    return True


def _is_local(bc) -> bool:
    from streamflow.core.deployment import LocalTarget

    ts = bc.targets
    return (
        len(ts) == 1
        and isinstance(ts[0], LocalTarget)
        and ts[0].deployment.name == "__LOCAL__"
        and ts[0].deployment.type == "local"
    )


def _check_query(wc, paths, kinds, q) -> bool:
    from streamflow.deployment.utils import get_binding_config

    bc = get_binding_config(_pstr(q), "step", wc)
    cands = _ref_nearest(paths, kinds, q)
    if not cands:
        return _is_local(bc)
    for i in cands:
        if _targets_are(bc, i):
            return True
    return False


def _all_queries(maxd):
    out = [()]
    for d in range(1, maxd + 1):
        out = out + [p + (c,) for p in out if len(p) == d - 1 for c in LETTERS]
    return out


def prop_nearest(bs, q) -> bool:
    """bs: per binding (is_step, depth, c0, c1, c2); q: (depth, c0, c1, c2) or an int = check every step path
    with at most that many components."""
    from pathlib import PurePosixPath

    from streamflow.config.config import WorkflowConfig

    kinds = [bool(b[0]) for b in bs]
    paths = [_comps(b[1], b[2:]) for b in bs]
    bindings = [_binding(i, kinds[i], paths[i]) for i in range(len(bs))]
    wc = WorkflowConfig("wf", _file(bindings, {"d0": _deployment(0), "d1": _deployment(1, workdir=True)}))
    # own path: `get` returns the declaration itself (as tests/test_translator uses it)
    for i, p in enumerate(paths):
        if kinds[i]:
            own = wc.get(PurePosixPath(_pstr(p)), "step")
            if own is None:
                return False
            same = [j for j in range(len(bs)) if kinds[j] and paths[j] == p]
            if not any(own["targets"][0].get("service") == "b" + str(j) + "t0" for j in same):
                return False
    if isinstance(q, tuple):
        return _check_query(wc, paths, kinds, _comps(q[0], q[1:]))
    for qq in _all_queries(q):
        if not _check_query(wc, paths, kinds, qq):
            return False
    return True


# ---------------------------------------------------------------- L2 workdir along the wraps chain


def _ref_cyclic(wraps) -> bool:
    """Some deployment reaches itself again by following `wraps` (-1 = no wraps)."""
    n = len(wraps)
    for start in range(n):
        cur = start
        for _ in range(n):
            cur = wraps[cur]
            if cur < 0:
                break
            if cur == start:
                return True
    return False


def _ref_workdir(wraps, wds, t):
    """Index of the first deployment with a workdir on the chain t, wraps[t], ... (None if there is none)."""
    cur = t
    for _ in range(len(wraps) + 1):
        if wds[cur]:
            return cur
        cur = wraps[cur]
        if cur < 0:
            return None
    return None


def prop_workdir(wraps, wds, t, twd, flip, below) -> bool:
    """Deployments d0..d(n-1), d<i> wraps d<wraps[i]> (or nothing if -1) and has a workdir iff wds[i]; one step
    binding on '/a' with a target on d<t> that has its own workdir iff twd; queried for '/a' or ('below') '/a/ab'."""
    from streamflow.config.config import WorkflowConfig
    from streamflow.deployment.utils import get_binding_config

    n = len(wraps)
    wraps = [int(w) for w in wraps]
    if _ref_cyclic(wraps):
        return True  # rejected files: lemma L3
    t = int(t)
    deployments = {}
    for i in range(n):
        deployments["d" + str(i)] = _deployment(
            i, wraps[i] if wraps[i] >= 0 else None, dict_form=((i % 2 == 1) != bool(flip)), workdir=bool(wds[i])
        )
    target = {"deployment": "d" + str(t)}
    if twd:
        target["workdir"] = "/wd/t"
    other = {"deployment": "d0", "workdir": "/wd/o"}
    wc = WorkflowConfig("wf", _file([{"step": "/a", "target": [target, other]}], deployments))
    bc = get_binding_config("/a/ab" if below else "/a", "step", wc)
    if len(bc.targets) != 2:
        return False
    tg = bc.targets[0]
    dc = tg.deployment
    if dc.name != "d" + str(t) or dc.type != "docker":
        return False
    # wraps is reported as declared
    if wraps[t] < 0:
        if dc.wraps is not None:
            return False
    else:
        if dc.wraps is None or dc.wraps.deployment != "d" + str(wraps[t]):
            return False
        if dc.wraps.service != (("s" + str(t)) if ((t % 2 == 1) != bool(flip)) else None):
            return False
    src = _ref_workdir(wraps, [bool(w) for w in wds], t)
    if src is None:
        if dc.workdir is not None:
            return False
    elif dc.workdir != "/wd/d" + str(src):
        return False
    if twd:
        if tg.workdir != "/wd/t":
            return False
    elif src is not None:
        if tg.workdir != "/wd/d" + str(src):
            return False
    elif not (isinstance(tg.workdir, str) and len(tg.workdir) > 0):
        return False
    # the second target keeps its own workdir whatever d0 inherits
    return bc.targets[1].workdir == "/wd/o" and bc.targets[1].deployment.name == "d0"


# ---------------------------------------------------------------- L3 cycle rejection


def prop_cycle(wraps, flip, wd0, bound) -> bool:
    """The constructor raises WorkflowDefinitionException iff the wraps relation has a cycle (whether or not any
    binding uses the deployments)."""
    from streamflow.config.config import WorkflowConfig
    from streamflow.core.exception import WorkflowDefinitionException

    n = len(wraps)
    wraps = [int(w) for w in wraps]
    deployments = {}
    for i in range(n):
        deployments["d" + str(i)] = _deployment(
            i, wraps[i] if wraps[i] >= 0 else None, dict_form=((i % 2 == 1) != bool(flip)), workdir=(i == 0 and bool(wd0))
        )
    bindings = [{"step": "/", "target": {"deployment": "d" + str(n - 1)}}] if bound else []
    try:
        WorkflowConfig("wf", _file(bindings, deployments))
    except WorkflowDefinitionException:
        return _ref_cyclic(wraps)
    return not _ref_cyclic(wraps)


# ---------------------------------------------------------------- native self test (not an obligation)


def selftest() -> None:
    """Natively: the generated mappings pass the real JSON-schema validation, and the props hold on a few inputs."""
    import copy

    from streamflow.config.validator import SfValidator

    v = SfValidator()
    v.validate(copy.deepcopy(_file([_binding(0, True, ("a",)), _binding(1, True, ()), _binding(2, False, ("a", "ab"))], {"d0": _deployment(0), "d1": _deployment(1, 0, True, True)})))
    v.validate(copy.deepcopy(_file([], {"d0": _deployment(0, 0, False, True)})))
    assert prop_nearest([(True, 1, False, False, False), (True, 0, False, False, False), (False, 2, False, True, False)], 3)
    assert prop_nearest([(True, 1, False, False, False), (True, 0, False, False, False)], (3, False, True, True))
    assert prop_workdir([1, 2, -1], [False, False, True], 0, False, False, True)
    assert prop_workdir([1, 2, -1], [False, False, False], 0, False, True, False)
    assert prop_cycle([1, 2, 0], False, True, True) and prop_cycle([-1, 0, 1], True, False, False) and prop_cycle([0], False, False, False)


# ---------------------------------------------------------------- obligations

IMPORTS = "from harness.C28 import *"

G1 = "L1 step targets = step binding on the longest declared prefix path (else LocalTarget)"
G2 = "L2 workdir = own, else first one along the wraps chain"
G3 = "L3 constructor raises WorkflowDefinitionException iff wraps has a cycle"


def _concrete_bindings(maxd, kinds=(True, False)):
    """Every concrete (is_step, depth, c0, c1, c2) with depth <= maxd (unused letters False)."""
    import itertools

    out = []
    for k in kinds:
        for d in range(maxd + 1):
            for cs in itertools.product((False, True), repeat=d):
                out.append((k, d) + cs + (False,) * (MAXD - d))
    return out


def _show(b) -> str:
    return ("step " if b[0] else "port ") + _pstr(_comps(b[1], b[2:]))


def _sym_binding(i, maxd, letters=None):
    """Params / preconditions / call expression for a solver-owned binding i; `letters` fixes the component
    choices (then only kind and depth are symbolic and the paths form a chain)."""
    ps = [f"k{i}: bool", f"d{i}: int"]
    pre = [f"0 <= d{i} <= {maxd}"]
    if letters is None:
        names = [f"x{i}", f"y{i}", f"z{i}"][:maxd]
        ps += [f"{v}: bool" for v in names]
        ls = names + ["False"] * (MAXD - maxd)
    else:
        ls = [repr(bool(v)) for v in letters]
    return ps, pre, f"(k{i}, d{i}, {', '.join(ls)})"


def _near_spec(name, n, maxd, fixed=(), symq=False, qpre=None, letters=None, cond=600, what=""):
    """n bindings, the first len(fixed) concrete (partition), the others symbolic with depth <= maxd."""
    ps, pre, exprs = [], [], []
    for i in range(n):
        if i < len(fixed):
            exprs.append(repr(tuple(fixed[i])))
        else:
            p, r, e = _sym_binding(i, maxd, letters)
            ps, pre = ps + p, pre + r
            exprs.append(e)
    if symq:
        ps += ["qd: int", "qx: bool", "qy: bool", "qz: bool"]
        pre += ["0 <= qd <= 3"] + list(qpre or [])
        q = "(qd, qx, qy, qz)"
        qtxt = "queried step path symbolic (0..3 components" + (", partition: " + " and ".join(qpre) if qpre else "") + ")"
    else:
        q = str(MAXD)
        qtxt = "every step path with 0..3 components (15) is queried on each explored configuration"
    if letters is None:
        ptxt = f"paths of 0..{maxd} components over {LETTERS}"
    else:
        ptxt = "paths on the chain " + ", ".join(_pstr(_comps(d, letters)) for d in range(maxd + 1))
    bound = (
        f"{n} binding(s), kind (step/port) symbolic, {ptxt}"
        + ("; partition: " + "; ".join(f"binding {i} = {_show(b)}" for i, b in enumerate(fixed)) if fixed else "")
        + "; "
        + qtxt
        + (" " + what if what else "")
    )
    nsym = n - len(fixed)
    return Spec(
        name=name,
        group=G1,
        source=mk_source(IMPORTS, ", ".join(ps), pre, f"prop_nearest([{', '.join(exprs)}], {q})"),
        cond=cond,
        path=30,
        bound=bound,
        symbolic=f"{nsym} x (kind bool, depth int, component choices bool)" + (" + query (depth int, 3 component bools)" if symq else ""),
        targets=T_CFG + T_BIND,
    )


def _wraps_spec(prop, name, group, nd, fixed, extra_params, extra_pre, call_tail, cond, bound, symbolic, targets):
    """nd deployments; wraps[i] concrete for i < len(fixed) (partition) else symbolic in -1..nd-1."""
    ps, pre, ws = [], [], []
    for i in range(nd):
        if i < len(fixed):
            ws.append(str(fixed[i]))
        else:
            ps.append(f"w{i}: int")
            pre.append(f"-1 <= w{i} <= {nd - 1}")
            ws.append(f"w{i}")
    ps += extra_params
    pre += extra_pre
    return Spec(
        name=name,
        group=group,
        source=mk_source(IMPORTS, ", ".join(ps), pre, f"{prop}([{', '.join(ws)}], {call_tail})"),
        cond=cond,
        path=30,
        bound=bound + ("; partition: " + ", ".join(f"d{i} wraps " + (f"d{w}" if w >= 0 else "nothing") for i, w in enumerate(fixed)) if fixed else ""),
        symbolic=symbolic,
        targets=targets,
    )


QPARTS = (["qd <= 1"], ["qd == 2"], ["qd == 3", "not qx"], ["qd == 3", "qx"])


def _u5_specs(n, cond):
    """n bindings over the five paths /, /a, /ab, /a/a, /a/ab (two components only below /a), all queries."""
    out = []
    for j, b in enumerate(b for b in _concrete_bindings(2) if b[1] <= 1 or not b[2]):
        s = _near_spec(f"near_n{n}_u5_allq_p{j}", n, 2, fixed=(b,), cond=cond)
        s.bound = s.bound.replace(f"paths of 0..2 components over {LETTERS}", "paths among /, /a, /ab, /a/a, /a/ab")
        out.append(_restrict(s, [f"d{i} <= 1 or not x{i}" for i in range(1, n)], text=""))
    return out


def specs(tier: str):
    quick = tier == "quick"
    out = []
    # ---------------- L1
    out.append(_near_spec("near_n1_symq", 1, 3, symq=True, cond=200))
    if quick:
        # n=2, symbolic query, binding paths up to 2 components (partition on the query)
        for qi, qp in enumerate(QPARTS):
            out.append(_near_spec(f"near_n2_d2_symq_q{qi}", 2, 2, symq=True, qpre=qp, cond=400))
        # n=3 over the paths /, /a, /ab, /a/a, /a/ab, all queries (partition: binding 0 concrete)
        out += _u5_specs(3, 400)
    else:
        for qi, qp in enumerate(QPARTS):
            for k in (True, False):
                sp = _near_spec(f"near_n2_d3_symq_q{qi}{'s' if k else 'p'}", 2, 3, symq=True, qpre=qp, cond=900)
                out.append(_restrict(sp, ["k0" if k else "not k0"]))
        for j, b in enumerate(_concrete_bindings(2)):
            for k in (True, False):
                sp = _near_spec(f"near_n3_d2_symq_p{j:02d}{'s' if k else 'p'}", 3, 2, fixed=(b,), symq=True, cond=900)
                out.append(_restrict(sp, ["k1" if k else "not k1"]))
        for j, b in enumerate(_concrete_bindings(3)):
            out.append(_near_spec(f"near_n3_d3_allq_p{j:02d}", 3, 3, fixed=(b,), cond=1200))
        # n=4 over the paths /, /a, /ab, /a/a, /a/ab, all queries (partition: binding 0 concrete)
        out += _u5_specs(4, 1800)
        chain = (False, True, False)
        for j, (k, d) in enumerate((k, d) for k in (True, False) for d in range(3)):
            b = (k, d) + chain
            out.append(_near_spec(f"near_n5_chain_allq_p{j}", 5, 2, fixed=(b,), letters=chain, cond=1800))
    # ---------------- L2
    for nd in (1, 2, 3) if quick else (1, 2, 3, 4):
        for t in range(nd):
            parts = [()] if nd < 4 else [(w,) for w in range(-1, nd)]
            for fx in parts:
                wd = [f"h{i}" for i in range(nd)]
                out.append(
                    _wraps_spec(
                        "prop_workdir",
                        f"workdir_n{nd}_t{t}" + ("" if not fx else f"_w{fx[0] + 1}"),
                        G2,
                        nd,
                        fx,
                        [f"{v}: bool" for v in wd] + ["twd: bool", "flip: bool", "below: bool"],
                        [],
                        f"[{', '.join(wd)}], {t}, twd, flip, below",
                        300 if nd < 4 else 900,
                        f"{nd} deployment(s), each wrapping any deployment (itself included) or none (files with a cycle are covered by L3 and skipped here), "
                        f"workdir present or not on each; a step binding on /a whose first target is d{t} (partition) with or without its own workdir; "
                        "both wraps notations; step queried on its own path or one level below",
                        f"{nd - len(fx)} wraps indexes (int), {nd} + 1 workdir presence flags, notation flag, query flag (bool)",
                        T_CFG + T_BIND,
                    )
                )
    # ---------------- L3
    for nd in (1, 2, 3, 4) if quick else (1, 2, 3, 4, 5):
        if nd <= 3:
            parts = [()]
        elif nd == 4:
            parts = [(w,) for w in range(-1, nd)]
        else:
            parts = [(w0, w1) for w0 in range(-1, nd) for w1 in range(-1, nd)]
        for fx in parts:
            out.append(
                _wraps_spec(
                    "prop_cycle",
                    f"cycle_n{nd}" + "".join(f"_{w + 1}" for w in fx),
                    G3,
                    nd,
                    fx,
                    ["flip: bool", "wd0: bool", "bound: bool"],
                    [],
                    "flip, wd0, bound",
                    300 if nd < 5 else 900,
                    f"{nd} deployment(s), each wrapping any deployment (itself included) or none: every functional wraps graph incl. self references, "
                    "cycles of every length, chains leading into a cycle; both wraps notations; d0 with/without workdir; with/without a root step binding",
                    f"{nd - len(fx)} wraps indexes (int), 3 flags (bool)",
                    T_CFG,
                )
            )
    return out


def _restrict(spec, pre, text=None):
    """Add preconditions (a restriction / partition of the same obligation) to both generated functions."""
    lines = "".join(f"    pre: {p}\n" for p in pre)
    assert '    """\n    pre:' in spec.source
    spec.source = spec.source.replace('    """\n    pre:', '    """\n' + lines + "    pre:")
    spec.bound += ("; partition: " + " and ".join(pre)) if text is None else text
    return spec
