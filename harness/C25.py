"""C25 — commands run exactly once with verbatim arguments, environment and output.

Kernel-level claim, two halves.

(A) RENDERING.  Real code executed symbolically: streamflow.core.utils.create_command,
streamflow.deployment.shell._build_shell_command, CommandTemplateMap.get_command (default
template and a queue-manager style template that uses streamflow_workdir /
streamflow_environment), and the `sh -c <quoted>` wrapping of LocalConnector.run followed by
the shlex.split of run_in_subprocess.  The solver owns the text of the environment value, the
working directory, and the stdin/stdout/stderr file names (strings over an alphabet of shell
metacharacters with solver-chosen length).  The oracle is `sh_read`, a small reference READER
for the sh sub-language these renderers emit (word splitting, quote removal, backslash, and
DETECTION of `$` expansion, backquotes, globbing and command separators outside single
quotes): the rendered line must read back as exactly `cd <workdir>`, `export K=<value>` and
the command words / redirections, nothing expanded, split or substituted.  The reader is only
a detector: when it rejects a rendering and the function is running natively (the replay of a
solver counterexample), the rendered line is executed by the real /bin/sh (printenv / pwd /
cat / echo on scratch files) and the function returns False only if the real shell misbehaves
too.

(B) FRAMING.  Real code: BaseShell.execute, _read_with_output, _read_without_output and
_build_shell_command on a DetLoop (virtual clock).  The environment is a stub `sh`: it
receives the command text the shell wrote, and answers `output + <marker>:<code>\n` in
solver-chosen chunks (multi-byte characters split across reads included) and at a
solver-chosen moment (immediately / after the caller's time-out, before or after the next
command is written).  Oracle: each command returns exactly (output.strip(), code) of ITS OWN
command — what a fresh process would return — or raises WorkflowExecutionException when it
timed out; a shell that reports itself open must be in sync with the command stream.
"""

from __future__ import annotations

import asyncio
import os
import shlex

import streamflow.core.utils as u
import streamflow.deployment.shell as sm
from lib.detloop import DetLoop
from lib.runner import Spec, mk_source
from streamflow.core.deployment import ExecutionLocation
from streamflow.core.exception import WorkflowExecutionException
from streamflow.core.utils import create_command
from streamflow.deployment.connector.base import BaseConnector, SubprocessShell
from streamflow.deployment.connector.local import LocalConnector
from streamflow.deployment.shell import _build_shell_command
from streamflow.deployment.template import CommandTemplateMap

LEVEL = "other"
EXPLANATION = (
    "(A) The environment value, working directory and redirection file names handed to the real renderers are "
    "strings assembled from solver-owned indexes into an alphabet of shell metacharacters (solver-owned length); "
    "the rendered command line is read back by a reference reader of the sh sub-language the renderers emit and must "
    "denote exactly the intended simple commands with no expansion possible. (B) The real BaseShell runs on a "
    "deterministic loop with a virtual clock against a stub sh whose answer (output text, exit code, chunk "
    "boundaries, arrival time relative to the caller's time-out and to the next command) is owned by the solver; "
    "every command of a 1-3 command sequence must get its own complete output and status."
)

ALPHA = ["a", " ", "'", '"', "$", "\\", "`", "*", "\n", ";", "é"]
SAFE = ["a", "0", ".", "-", "é", "/"]  # no character that sh interprets (é: multi-byte)

ASSUMPTIONS = [
    "(A) strings are concatenations of 0..3 (quick) / 0..4 (thorough) characters of "
    + repr(ALPHA)
    + " (working directory and file names: 1..n characters appended to a fixed safe prefix); other characters "
    "(tab, '#', '~', '?', '[', '|', '&', '<', '>', '(', NUL) and longer strings are outside the bound. A second family "
    "of obligations uses the alphabet " + repr(SAFE) + " (nothing for sh to interpret) and must hold on any tree",
    "(A) environment variable NAMES are valid shell identifiers ('K', 'L') and the command words are plain words "
    "('printenv', 'K'): quoting of the command itself is the caller's contract (callers join pre-quoted words) and is "
    "not part of the claim",
    "(A) the reference reader models POSIX sh for the emitted sub-language: blanks, newline/';'/'&&' separators, "
    "'<' '>' '2>' '2>&1' redirections, single quotes, double quotes (backslash escapes only $ ` \" \\ newline), "
    "backslash, comments; '$' starts an expansion when followed by a name character, digit, one of @*#?-$! or an "
    "opening brace/parenthesis; an unquoted '*' is a glob. It was compared with /bin/sh (dash) on every string of the "
    "bound for every renderer (see report); it is used as a detector only — a counterexample counts only if the real "
    "/bin/sh misbehaves on it in the native replay (scratch directory with decoy entries so that globs have matches)",
    "(A) CommandTemplateMap: user-supplied templates are outside the claim except for the project's own example "
    "form (tests/test_connector.py service_b): 'cd {{ streamflow_workdir }}' / '{{ streamflow_environment }}' / "
    "'{{streamflow_command}}' on separate lines, i.e. the template does not add quotes of its own",
    "(A) LocalConnector.run / BaseConnector.run assemble their command with create_command; what is checked on top "
    "is that LocalConnector's `sh -c shlex.quote(line)` survives run_in_subprocess's shlex.split(' '.join(...)) "
    "unchanged. Real process creation, the queue managers' own sbatch/qsub/flux option assembly "
    "(_run_batch_command, get_option) and docker/singularity/kubectl wrappers are outside the claim",
    "(B) the stub sh executes commands in order and writes `output` then `<marker>:<code>\\n` (what "
    "`cmd 2>&1; echo \"<marker>:$?\"` produces); outputs come from a fixed list (empty, with/without trailing "
    "newline, blank-padded, a prefix of the marker, the marker text of ANOTHER command, multi-byte UTF-8); an output "
    "containing the CURRENT command's full random marker followed by ':' is excluded (122-bit random uuid4); "
    "random_name is replaced by a counter",
    "(B) chunking: the byte stream is cut at two solver-chosen positions (three reads) or delivered in reads of a "
    "solver-chosen buffer_size; time-outs fire on DetLoop's virtual clock only when nothing else is ready; the late "
    "answer of a timed-out command arrives either before the next command is written or right after",
    "(B) sequences run through the real BaseConnector.run / get_shell / utils.run_in_shell over a connector whose _create_shell "
    "returns the real SubprocessShell on a stub process; the fallback utils.run_in_subprocess is replaced by the reference "
    "'fresh process' (returns (output.strip(), code), raises asyncio.TimeoutError for a command that outlives the time-out). "
    "A stub sh that is busy does not react to `exit` (SubprocessShell._close then waits its 5 s on the virtual clock and kills it)",
    "(B) BaseShell's incremental UTF-8 decoder object is replaced, after construction, by the same C decoder created outside "
    "CrossHair's tracer (CrossHair substitutes a pure-Python model of the codec registry inside traced code); all bytes are concrete",
    "the reference reader sh_read (the oracle, not code under test) runs outside CrossHair's tracer when its input is a plain str, "
    "which is always the case: every path carries concrete text",
    "(A4) 'the command does not run when cd fails' is part of the claim because the fresh-process rendering (create_command) chains "
    "with && while the persistent-shell rendering is expected to be observationally equivalent; checked on plain strings only",
    "(B) 'equivalent to a fresh process' is read as: (output.strip(), exit code) of the command itself — the contract "
    "of run_in_subprocess — or WorkflowExecutionException for the command that timed out; commands do not read the "
    "shell's standard input and are not killed by signals; 1 MiB outputs and invalid UTF-8 (replaced by design) are "
    "outside the bound; 'executes exactly once' for real processes is outside the claim",
]

T_CREATE = ("streamflow.core.utils.create_command",)
T_BUILD = ("streamflow.deployment.shell._build_shell_command",)
T_TEMPLATE = ("streamflow.deployment.template.CommandTemplateMap.get_command", "streamflow.core.utils.create_command")
T_LOCAL = ("streamflow.core.utils.create_command", "streamflow.deployment.connector.local.LocalConnector.run", "streamflow.core.utils.run_in_subprocess")
T_SHELL = (
    "streamflow.deployment.shell.BaseShell.execute",
    "streamflow.deployment.shell.BaseShell._read_with_output",
    "streamflow.deployment.shell.BaseShell._read_without_output",
    "streamflow.deployment.shell._build_shell_command",
    "streamflow.deployment.shell.BaseShell.close",
    "streamflow.deployment.shell.BaseShell.closed",
)


def _tracing() -> bool:
    """True while CrossHair is executing this code symbolically."""
    try:
        from crosshair.tracers import is_tracing

        return bool(is_tracing())
    except Exception:
        return False


def concrete(x, hi: int) -> int:
    """the plain int equal to the solver-owned x in 0..hi-1 (one path per value)"""
    for k in range(hi):
        if x == k:
            return k
    raise ValueError("out of range")


def mk(alpha, n, i0=0, i1=0, i2=0, i3=0) -> str:
    """The string alpha[i0] + ... of length n (n, i* solver-owned; every path carries concrete text)."""
    idx = (i0, i1, i2, i3)
    s = ""
    for k in range(4):
        if k < n:
            s = s + alpha[idx[k]]
    return s


# ============================================================ reference reader


class Hazard(Exception):
    """The text asks sh for something other than literal words (or is not well formed)."""


_EXPANDS_AFTER_DOLLAR = "ABCDEFGHIJKLMNOPQRSTUVWXYZabcdefghijklmnopqrstuvwxyz_0123456789@*#?-$!{("


def sh_read(src: str) -> list:
    """Read `src` as sh would and return [(separator_before, words, redirections)].

    separator_before is None (first), '&&' or ';' (';' also stands for a newline).
    redirections is a list of (operator, target) with operator in '<', '>', '2>', '2>&'.
    Raises Hazard for anything that makes sh do more than pass literal words:
    parameter/command substitution, globbing, pipes, background, sub-shells,
    unbalanced quotes, operators without operands.
    """
    cmds: list = []
    words: list = []
    redirs: list = []
    sep = None
    cur = None  # word under construction (None: between words)
    plain = True  # cur was built from unquoted, unescaped characters only
    pend = None  # redirection operator waiting for its target word
    i, n = 0, len(src)

    def end_word():
        nonlocal cur, plain, pend
        if cur is not None:
            if pend is not None:
                redirs.append((pend, cur))
                pend = None
            else:
                words.append(cur)
        cur, plain = None, True

    def end_cmd(next_sep, explicit):
        nonlocal words, redirs, sep
        end_word()
        if pend is not None:
            raise Hazard("redirection without target")
        if not words and not redirs:
            if explicit:
                raise Hazard("empty command before " + next_sep)
            return  # blank line
        cmds.append((sep, words, redirs))
        words, redirs, sep = [], [], next_sep

    while i < n:
        c = src[i]
        if c == " " or c == "\t":
            end_word()
            i += 1
        elif c == "\n":
            end_cmd(";", False)
            i += 1
        elif c == ";":
            end_cmd(";", True)
            i += 1
        elif c == "&":
            if i + 1 < n and src[i + 1] == "&":
                end_cmd("&&", True)
                i += 2
            else:
                raise Hazard("background &")
        elif c == "|" or c == "(" or c == ")":
            raise Hazard("operator " + c)
        elif c == "<" or c == ">":
            op = c
            if cur is not None and plain and cur == "2" and c == ">":
                op = "2>"
                cur = None
            end_word()
            if pend is not None:
                raise Hazard("redirection without target")
            i += 1
            if i < n and src[i] == ">":
                raise Hazard("append redirection")
            if i < n and src[i] == "&":
                if op == "<":
                    raise Hazard("<&")
                op = op + "&" if op == "2>" else ">&"
                i += 1
            pend = op
        elif c == "'":
            j = src.find("'", i + 1)
            if j < 0:
                raise Hazard("unbalanced '")
            cur = (cur or "") + src[i + 1 : j]
            plain = False
            i = j + 1
        elif c == '"':
            cur = cur or ""
            plain = False
            i += 1
            while True:
                if i >= n:
                    raise Hazard('unbalanced "')
                d = src[i]
                if d == '"':
                    i += 1
                    break
                if d == "\\":
                    if i + 1 >= n:
                        raise Hazard('unbalanced "')
                    e = src[i + 1]
                    if e == "\n":
                        pass  # line continuation: both removed
                    elif e == "$" or e == "`" or e == '"' or e == "\\":
                        cur += e
                    else:
                        cur += "\\" + e
                    i += 2
                elif d == "`":
                    raise Hazard("command substitution")
                elif d == "$" and i + 1 < n and src[i + 1] in _EXPANDS_AFTER_DOLLAR:
                    raise Hazard("expansion")
                else:
                    cur += d
                    i += 1
        elif c == "\\":
            if i + 1 >= n:
                cur = (cur or "") + "\\"
                i += 1
            elif src[i + 1] == "\n":
                i += 2  # line continuation
            else:
                cur = (cur or "") + src[i + 1]
                plain = False
                i += 2
        elif c == "`":
            raise Hazard("command substitution")
        elif c == "$" and i + 1 < n and src[i + 1] in _EXPANDS_AFTER_DOLLAR:
            raise Hazard("expansion")
        elif c == "*" or c == "?" or c == "[":
            raise Hazard("glob")
        elif c == "#" and cur is None:
            j = src.find("\n", i)
            i = n if j < 0 else j
        elif c == "~" and cur is None:
            raise Hazard("tilde")
        else:
            cur = (cur or "") + c
            i += 1
    end_cmd(";", False)
    return cmds


def sh_read_fast(text):
    """sh_read; when `text` is a plain str (always the case here: every path carries concrete text) the reader —
    the oracle, not the code under test — runs outside CrossHair's tracer."""
    try:
        from crosshair.tracers import NoTracing
    except ImportError:
        return sh_read(text)
    hazard = None
    with NoTracing():
        if type(text) is str:
            try:
                return sh_read(text)
            except Hazard as e:
                hazard = e
    if hazard is not None:
        raise hazard
    return sh_read(text)


def _reads_as(text: str, expected: list, seps=("&&",)) -> bool:
    """`text` denotes exactly the simple commands `expected` = [(words, redirs)], joined by one of `seps`."""
    try:
        got = sh_read_fast(text)
    except Hazard:
        return False
    if len(got) != len(expected):
        return False
    for k, ((sep, words, redirs), (ewords, eredirs)) in enumerate(zip(got, expected)):
        if k > 0 and sep not in seps:
            return False
        if words != ewords or redirs != eredirs:
            return False
    return True


# ============================================================ native confirmation (real /bin/sh)

_SCRATCH_ROOT = "/tmp/c25_native"


def _scratch() -> str:
    import tempfile

    os.makedirs(_SCRATCH_ROOT, exist_ok=True)
    return os.path.realpath(tempfile.mkdtemp(prefix="r", dir=_SCRATCH_ROOT))


def _decoys(base: str, names, files=False) -> None:
    """Give every glob something else to match: for a name with '*', also create the names with one / every '*'
    replaced by '!0' (they sort before the name itself in the C locale)."""
    cands = []
    for nm in names:
        for k, ch in enumerate(nm):
            if ch == "*":
                cands.append(nm[:k] + "!0" + nm[k + 1 :])
        if "*" in nm:
            cands.append(nm.replace("*", "!0"))
    for cand in cands:
        if True:
            d = os.path.join(base, cand)
            try:
                if files:
                    with open(d, "w") as f:
                        f.write("decoy\n")
                else:
                    os.makedirs(d, exist_ok=True)
            except OSError:
                pass


def _sh(script: str, cwd: str, stdin_script: bool = False):
    """Run `script` with the real /bin/sh; returns (stdout bytes, exit code)."""
    import subprocess

    env = {"PATH": "/usr/bin:/bin", "LC_ALL": "C", "HOME": cwd}
    if stdin_script:
        p = subprocess.run(["/bin/sh"], input=script.encode(), cwd=cwd, env=env, stdout=subprocess.PIPE, stderr=subprocess.DEVNULL, timeout=20)
    else:
        p = subprocess.run(["/bin/sh", "-c", script], cwd=cwd, env=env, stdout=subprocess.PIPE, stderr=subprocess.DEVNULL, stdin=subprocess.DEVNULL, timeout=20)
    return p.stdout, p.returncode


def _cleanup(base: str) -> None:
    import shutil

    shutil.rmtree(base, ignore_errors=True)


def _say(*a) -> None:
    if not _tracing():
        print("C25-native:", *a, flush=True)


def _local_connector_run(command, environment=None, workdir=None, stdin=None, stdout=None, stderr=None):
    """The real LocalConnector.run on the real loop (native replay only); None if it cannot be built here."""
    try:
        conn = LocalConnector("c25", "/tmp")
        loc = ExecutionLocation(name="__LOCAL__", deployment="c25", local=True)
        kw = {}
        if stdin is not None:
            kw["stdin"] = stdin
        if stdout is not None:
            kw["stdout"] = stdout
            kw["stderr"] = stdout if stderr is None else stderr
        elif stderr is not None:
            kw["stderr"] = stderr
        return asyncio.run(conn.run(loc, command, environment=environment, workdir=workdir, capture_output=True, timeout=20, **kw))
    except Exception as e:  # reported, never decides
        return ("<LocalConnector.run raised " + type(e).__name__ + ": " + str(e)[:200] + ">", None)


# ============================================================ (A) renderers

ENV_CMD = ["printenv", "K"]
WD_PREFIX = "/w/"


def _render_env(renderer: str, value: str) -> tuple:
    """-> (text handed to sh, expected reading [(words, redirections)], allowed separators)."""
    env = {"K": value, "L": "z"}
    exp = [(["export", "K=" + value], []), (["export", "L=z"], [])]
    if renderer == "create":
        text = create_command("C", list(ENV_CMD), env, None)
        return text, exp + [(list(ENV_CMD), [("2>&", "1")])], ("&&",)
    if renderer == "build":
        text = _build_shell_command("SF_CMD_END_x", list(ENV_CMD), "C", ["sh"], env, None)
        return text, exp + [(list(ENV_CMD), [])], ("&&", ";")
    if renderer == "template":
        text = QM_TEMPLATES.get_command(" ".join(ENV_CMD), template="svc", environment=env, workdir="/tmp")
        return text, [(["cd", "/tmp"], [])] + exp + [(list(ENV_CMD), [])], ("&&", ";")
    raise ValueError(renderer)


def _unwrap_build(text: str):
    """_build_shell_command output -> the script run by the inner `sh -c`, or None if not of that shape."""
    trailer = '\necho "SF_CMD_END_x:$?"\n'
    if not text.endswith(trailer):
        return None
    try:
        outer = sh_read_fast(text[: -len(trailer)])
    except Hazard:
        return None
    if len(outer) != 1:
        return None
    sep, words, redirs = outer[0]
    if redirs != [("2>&", "1")]:
        return None
    if len(words) == 3 and words[0] == "sh" and words[1] == "-c":
        return words[2]
    return None


def _model_ok(renderer: str, text: str, expected: list, seps) -> bool:
    if renderer == "build":
        inner = _unwrap_build(text)
        if inner is None:
            return False
        return _reads_as(inner, expected, seps)
    return _reads_as(text, expected, seps)


def _native_env(renderer: str, value: str, text: str) -> bool:
    """True iff the real /bin/sh delivers `value` verbatim in K."""
    base = _scratch()
    try:
        _decoys(base, ["K=" + value, value], files=True)
        out, code = _sh(text, base, stdin_script=(renderer == "build"))
        want = (value + "\n").encode()
        if renderer == "build":
            want = want + b"SF_CMD_END_x:0\n"
        ok = out == want and code == 0
        _say(renderer, "env value", repr(value), "rendered", repr(text), "-> /bin/sh stdout", repr(out), "exit", code, "VERBATIM" if ok else "NOT VERBATIM")
        if renderer == "create":
            r = _local_connector_run(list(ENV_CMD), environment={"K": value, "L": "z"}, workdir=base)
            _say("LocalConnector.run(printenv K) ->", repr(r), "expected", repr((value.strip(), 0)))
        return ok
    finally:
        _cleanup(base)


def prop_env(renderer: str, alpha: list, n, i0=0, i1=0, i2=0, i3=0) -> bool:
    """The environment value reaches the command verbatim (export K=<value> denotes exactly value)."""
    value = mk(alpha, n, i0, i1, i2, i3)
    text, expected, seps = _render_env(renderer, value)
    if _model_ok(renderer, text, expected, seps):
        return True
    if _tracing():
        return False
    return _native_env(renderer, value, text)


def _render_wd(renderer: str, workdir: str, cmd: list):
    if renderer == "create":
        text = create_command("C", list(cmd), None, workdir)
        return text, [(["cd", workdir], []), (list(cmd), [("2>&", "1")])], ("&&",)
    if renderer == "build":
        text = _build_shell_command("SF_CMD_END_x", list(cmd), "C", ["sh"], None, workdir)
        return text, [(["cd", workdir], []), (list(cmd), [])], ("&&", ";")
    if renderer == "template":
        text = QM_TEMPLATES.get_command(" ".join(cmd), template="svc", environment=None, workdir=workdir)
        return text, [(["cd", workdir], []), (list(cmd), [])], ("&&", ";")
    raise ValueError(renderer)


def _native_wd(renderer: str, tail: str) -> bool:
    base = _scratch()
    try:
        workdir = base + "/" + tail
        os.makedirs(workdir, exist_ok=True)
        _decoys(base, [tail])
        text, _, _ = _render_wd(renderer, workdir, ["pwd"])
        out, code = _sh(text, base, stdin_script=(renderer == "build"))
        want = (workdir + "\n").encode()
        if renderer == "build":
            want = want + b"SF_CMD_END_x:0\n"
        ok = out == want and code == 0
        _say(renderer, "workdir", repr(workdir), "rendered", repr(text), "-> /bin/sh stdout", repr(out), "exit", code, "VERBATIM" if ok else "NOT VERBATIM")
        if renderer == "create":
            r = _local_connector_run(["pwd"], workdir=workdir)
            _say("LocalConnector.run(pwd) ->", repr(r), "expected", repr((workdir.strip(), 0)))
        return ok
    finally:
        _cleanup(base)


def prop_workdir(renderer: str, alpha: list, n, i0=0, i1=0, i2=0, i3=0) -> bool:
    """`cd <workdir>` denotes exactly the directory (one word, nothing expanded)."""
    tail = mk(alpha, n, i0, i1, i2, i3)
    workdir = WD_PREFIX + tail
    text, expected, seps = _render_wd(renderer, workdir, ["pwd"])
    if _model_ok(renderer, text, expected, seps):
        return True
    if _tracing():
        return False
    return _native_wd(renderer, tail)


def _native_redir(which: str, name: str) -> bool:

    base = _scratch()
    try:
        _decoys(base, [name], files=True)
        path = os.path.join(base, name)
        if which == "stdin":
            with open(path, "w") as f:
                f.write("payload\n")
            text = create_command("C", ["cat"], None, None, name)
            out, code = _sh(text, base)
            ok = out == b"payload\n" and code == 0
        else:
            if which == "stdout":
                text = create_command("C", ["echo", "payload"], None, None, None, name)
            else:
                text = create_command("C", ["sh", "-c", "'echo payload >&2'"], None, None, None, asyncio.subprocess.STDOUT, name)
            out, code = _sh(text, base)
            try:
                with open(path, "rb") as f:
                    content = f.read()
            except OSError:
                content = None
            ok = content == b"payload\n" and code == 0 and out == b""
            out = (out, "file content", content)
        _say("create_command", which, repr(name), "rendered", repr(text), "->", repr(out), "exit", code, "VERBATIM" if ok else "NOT VERBATIM")
        return ok
    finally:
        _cleanup(base)


def prop_redirect(which: str, alpha: list, n, i0=0, i1=0, i2=0, i3=0) -> bool:
    """A stdin/stdout/stderr file name reaches the redirection verbatim (create_command)."""

    name = "f" + mk(alpha, n, i0, i1, i2, i3)
    cmd = ["cat"]
    if which == "stdin":
        text = create_command("C", cmd, None, None, name)
        expected = [(cmd, [("<", name), ("2>&", "1")])]
    elif which == "stdout":
        text = create_command("C", cmd, None, None, None, name)
        expected = [(cmd, [(">", name)])]
    elif which == "stderr":
        text = create_command("C", cmd, None, None, None, asyncio.subprocess.STDOUT, name)
        expected = [(cmd, [("2>", name)])]
    elif which == "both":  # the CWL default: stderr is the stdout file
        text = create_command("C", cmd, None, None, None, name, name)
        expected = [(cmd, [(">", name), ("2>&", "1")])]
    else:
        raise ValueError(which)
    if _reads_as(text, expected):
        return True
    if _tracing():
        return False
    return _native_redir("stdout" if which == "both" else which, name)


def prop_env_and_workdir(renderer: str, alpha: list, n, i0=0, i1=0, i2=0, i3=0) -> bool:
    """Both fields of one renderer on the same string (used where a single verdict per renderer is enough)."""
    ok = prop_env(renderer, alpha, n, i0, i1, i2, i3)
    if n >= 1:
        ok = prop_workdir(renderer, alpha, n, i0, i1, i2, i3) and ok
    return ok


def prop_redirects(alpha: list, n, i0=0, i1=0, i2=0, i3=0) -> bool:
    """stdin, stdout and stderr file names in one command line, and stdout == stderr (the CWL default)."""

    name = "f" + mk(alpha, n, i0, i1, i2, i3)
    cmd = ["cat"]
    ok = _reads_as(create_command("C", cmd, None, None, name, name + "o", name + "e"), [(cmd, [("<", name), (">", name + "o"), ("2>", name + "e")])])
    ok = _reads_as(create_command("C", cmd, None, None, None, name, name), [(cmd, [(">", name), ("2>&", "1")])]) and ok
    if ok:
        return True
    if _tracing():
        return False
    for which in ("stdin", "stdout", "stderr", "both"):
        ok = prop_redirect(which, alpha, n, i0, i1, i2, i3) and ok
    return ok


def prop_all_fields(alpha: list, nv, v0, v1, nw, w0, w1, nf, f0, f1) -> bool:
    """create_command with every field set at once: nothing bleeds from one field into another."""

    value = mk(alpha, nv, v0, v1)
    workdir = WD_PREFIX + mk(alpha, nw, w0, w1)
    name = "f" + mk(alpha, nf, f0, f1)
    text = create_command("C", list(ENV_CMD), {"K": value}, workdir, name, name + "o", name + "e")
    expected = [
        (["cd", workdir], []),
        (["export", "K=" + value], []),
        (list(ENV_CMD), [("<", name), (">", name + "o"), ("2>", name + "e")]),
    ]
    if _reads_as(text, expected):
        return True
    if _tracing():
        return False
    # native: decided by the single-field confirmations of whichever field is not verbatim
    ok = True
    if not _reads_as(create_command("C", list(ENV_CMD), {"K": value}, None), [(["export", "K=" + value], []), (list(ENV_CMD), [("2>&", "1")])]):
        ok = _native_env("create", value, create_command("C", list(ENV_CMD), {"K": value, "L": "z"}, None)) and ok
    if not _reads_as(create_command("C", ["pwd"], None, workdir), [(["cd", workdir], []), (["pwd"], [("2>&", "1")])]):
        ok = _native_wd("create", workdir[len(WD_PREFIX) :]) and ok
    return ok


STD_NAMES = ["out file", "e'rr"]


def prop_std_constants(si, so, se) -> bool:
    """The asyncio.subprocess constants accepted by Connector.run for stdin/stdout/stderr never alter the
    command words, and file names end up in the redirection they were given for."""

    D, S = asyncio.subprocess.DEVNULL, asyncio.subprocess.STDOUT
    stdin = [None, D, "in file"][si]
    stdout = [S, D, STD_NAMES[0]][so]
    stderr = [S, D, STD_NAMES[1], STD_NAMES[0]][se]
    cmd = ["echo", "payload"]
    text = create_command("C", cmd, None, None, stdin, stdout, stderr)
    try:
        got = sh_read_fast(text)
    except Hazard:
        got = None
    ok = got is not None and len(got) == 1 and got[0][1] == cmd
    if ok:
        redirs = got[0][2]
        for op, target in redirs:
            if target not in ("in file", STD_NAMES[0], STD_NAMES[1], "/dev/null", "1"):
                ok = False
        if isinstance(stdin, str) and ("<", stdin) not in redirs:
            ok = False
        if isinstance(stdout, str) and (">", stdout) not in redirs:
            ok = False
        if stdout == D and (">", "/dev/null") not in redirs:
            ok = False
        if isinstance(stderr, str) and stderr != stdout and ("2>", stderr) not in redirs:
            ok = False
        if stderr == D and stdout != D and ("2>", "/dev/null") not in redirs:
            ok = False
    if ok:
        return True
    if _tracing():
        return False
    base = _scratch()
    try:
        with open(os.path.join(base, "in file"), "w") as f:
            f.write("x\n")
        out, code = _sh(text, base)
        want = b"" if (stdout != S) else b"payload\n"
        good = out == want and code == 0
        if isinstance(stdout, str):
            try:
                with open(os.path.join(base, stdout), "rb") as f:
                    good = good and f.read() == b"payload\n"
            except OSError:
                good = False
        _say("create_command stdin/stdout/stderr", (stdin, stdout, stderr), "rendered", repr(text), "-> /bin/sh stdout", repr(out), "exit", code, "files", sorted(os.listdir(base)), "OK" if good else "WRONG")
        return good
    finally:
        _cleanup(base)


def prop_cd_failure_aborts(renderer: str, alpha: list, n, i0=0, i1=0, i2=0) -> bool:
    """The command must not run when `cd <workdir>` fails: cd, export and the command are chained with `&&`
    (what create_command — the fresh-process rendering — does), never with ';' or a newline."""
    tail = mk(alpha, n, i0, i1, i2)
    workdir = WD_PREFIX + tail
    text, expected, _ = _render_wd(renderer, workdir, ["pwd"])
    if _model_ok(renderer, text, expected, ("&&",)):
        return True
    if _tracing():
        return False
    base = _scratch()
    try:
        missing = base + "/missing" + tail
        text, _, _ = _render_wd(renderer, missing, ["echo", "RAN-IN", "$PWD"])
        out, code = _sh(text, base, stdin_script=(renderer == "build"))
        ran = b"RAN-IN" in out
        _say(renderer, "workdir that does not exist", repr(missing), "rendered", repr(text), "-> /bin/sh stdout", repr(out), "exit", code, "COMMAND RAN ANYWAY" if ran else "aborted")
        return not ran
    finally:
        _cleanup(base)


class _FakePipe:
    def __init__(self, proc):
        self.proc = proc

    async def read(self, n=-1):
        data = self.proc._drain()
        await self.proc._exited.wait()  # EOF = the child closed its end
        return data


class _FakeProc:
    """A child that writes its output to a pipe and then exits with code 0. `big`: the output exceeds the
    pipe capacity, so the child blocks in write() and can exit only after somebody has read the pipe
    (what the OS does above 64 KiB); otherwise it exits at once and the output waits in the pipe."""

    def __init__(self, big):
        self.returncode = None
        self._out = b" out\n"
        self._exited = asyncio.Event()
        self.stdout = _FakePipe(self)
        if not big:
            self._exit()

    def _exit(self):
        self.returncode = 0
        self._exited.set()

    def _drain(self):
        data, self._out = self._out, b""
        self._exit()
        return data

    async def communicate(self):
        data = self._drain()
        await self._exited.wait()
        return (data, None)

    async def wait(self):
        await self._exited.wait()
        return self.returncode


class _PatchExec:
    """asyncio.create_subprocess_exec := recorder (the only thing below run_in_subprocess)."""

    def __init__(self, big=False):
        self.big = big

    def __enter__(self):
        self.calls = []
        self.old = asyncio.create_subprocess_exec
        calls = self.calls
        big = self.big

        async def create_subprocess_exec(*argv, **kw):
            calls.append(list(argv))
            return _FakeProc(big)

        asyncio.create_subprocess_exec = create_subprocess_exec
        return self

    def __exit__(self, *a):
        asyncio.create_subprocess_exec = self.old
        return False


def prop_local_run(alpha: list, which: int, big: bool, n, i0=0, i1=0, i2=0, i3=0) -> bool:
    """The real LocalConnector.run + run_in_subprocess down to create_subprocess_exec: the process is created
    exactly once, with argv == ['sh', '-c', <create_command's line>] (the line survives shlex.quote followed
    by shlex.split(' '.join(...)) unchanged), and the result is (stdout.strip(), returncode) - also when the
    output is larger than the pipe between the child and the engine (big), i.e. the call must return."""
    from lib.detloop import Deadlock, Livelock

    s = mk(alpha, n, i0, i1, i2, i3)
    value, workdir = (s, "/w/x y") if which == 0 else ("v $x", WD_PREFIX + s)
    env = {"K": value}
    line = create_command("LocalConnector", list(ENV_CMD), env, workdir)
    conn = LocalConnector.__new__(LocalConnector)  # __init__ only probes the host's disks and memory
    loc = ExecutionLocation(name="__LOCAL__", deployment="d", local=True)
    loop = DetLoop()
    with _PatchExec(True if big else False) as px, loop:
        try:
            r = loop.run_until_complete(LocalConnector.run(conn, loc, list(ENV_CMD), environment=env, workdir=workdir, capture_output=True))
        except (Deadlock, Livelock):
            return False  # the call never returns: nobody reads the pipe the child is blocked on
    return px.calls == [["sh", "-c", line]] and r == ("out", 0)


def _templates():
    """CommandTemplateMap built once, at import (jinja2 compiles the templates at construction)."""

    return CommandTemplateMap(
        default="#!/bin/sh\n\n{{streamflow_command}}",
        template_map={"svc": "#!/bin/sh\n#SBATCH --partition=p\ncd {{ streamflow_workdir }}\n{{ streamflow_environment }}\n{{streamflow_command}}"},
    )


QM_TEMPLATES = _templates()
# warm jinja2's lazily initialised state outside the solver
QM_TEMPLATES.get_command("true", template="svc", environment={"K": "v"}, workdir="/w")
QM_TEMPLATES.get_command("true", template=None, environment={"K": "v"}, workdir="/w")


def prop_default_template(alpha: list, n, i0=0, i1=0, i2=0, i3=0) -> bool:
    """ssh / queue-manager flow with the DEFAULT template: create_command's line is embedded unchanged
    (the template must not re-interpret it), so the script is the shebang followed by that line."""

    value = mk(alpha, n, i0, i1, i2, i3)
    workdir = WD_PREFIX + value
    line = create_command("SlurmConnector", list(ENV_CMD), {"K": value}, workdir)
    script = QM_TEMPLATES.get_command(line, template=None, environment={"K": value}, workdir=workdir)
    return script == "#!/bin/sh\n\n" + line


# ============================================================ (B) framing: stub sh behind the real shell

OUTS = [
    b"",
    b"x",
    b"x\n",
    b" x \n\n",
    b"SF_CMD_END_",  # a prefix of every marker, no trailing newline
    b"SF_CMD_END_0:9\n",  # looks like the frame of ANOTHER command
    "é€x".encode(),  # 2- and 3-byte characters, no trailing newline
    b"a\nb\n",
]
CODES = [0, 7, 255]
TIMEOUT = 5


class StubSh:
    """The `sh` process at the other end of the pipes: executes the received commands in order and writes
    `output` + `<marker>:<code>\n` for each. plan[k] = dict(out, code, cuts, slow): slow 0 = answers at once;
    1 = the part after the first cut arrives only after the caller gave up, before the next command is written;
    2 = ... right after the next command has been written."""

    def __init__(self, loop, plan, first=0):
        self.loop = loop
        self.plan = plan
        self.first = first  # index in plan of the first command this process will receive
        self.received = []  # (plan index, command text)
        self.chunks = []  # bytes available to read
        self.held = []  # chunks of a slow command not yet written
        self.waiter = None
        self.exit_waiter = None
        self.returncode = None
        self.eof = False
        self.exit_requested = False

    # ---- process side
    def feed(self, chunks):
        self.chunks.extend(c for c in chunks if c)
        if self.waiter is not None and not self.waiter.done():
            self.waiter.set_result(None)

    def release(self, upto, current=None):
        """the slow commands with index <= upto finally finish; the answer of `current` (written while sh was
        busy) follows as far as it is due: all of it if that command is quick, its first part otherwise"""
        keep, go = [], []
        for k, part, chunk in self.held:
            if k <= upto or (k == current and (self.plan[k]["slow"] == 0 or part == 0)):
                go.append(chunk)
            else:
                keep.append((k, part, chunk))
        self.held = keep
        self.feed(go)
        if self.exit_requested and not self.held:
            self._exit(0)

    def _exit(self, code):
        if self.returncode is None:
            self.returncode = code
            self.eof = True
            self.held = []
            if self.waiter is not None and not self.waiter.done():
                self.waiter.set_result(None)
            if self.exit_waiter is not None and not self.exit_waiter.done():
                self.exit_waiter.set_result(None)

    def on_write(self, data: bytes):
        if self.returncode is not None:
            raise BrokenPipeError("sh is gone")
        text = data.decode()
        if text == "exit\n":
            self.exit_requested = True
            if not self.held:
                self._exit(0)
            return
        k = self.first + len(self.received)
        self.received.append((k, text))
        lines = text.split("\n")
        last = lines[-2] if len(lines) >= 2 else ""
        if not (last.startswith('echo "') and last.endswith(':$?"')):
            raise AssertionError("unexpected shell protocol: " + repr(text))
        marker = last[len('echo "') : -len(':$?"')]
        pl = self.plan[k]
        ans = pl["out"] + marker.encode() + b":" + str(pl["code"]).encode() + b"\n"
        c1, c2 = pl["cuts"]
        c1 = min(c1, len(ans))
        c2 = min(max(c1, c2), len(ans))
        parts = [ans[:c1], ans[c1:c2], ans[c2:]]
        tagged = [(k, q, parts[q]) for q in range(3)]
        if self.held:
            # sh is still running an earlier command: this one's output follows it
            self.held.extend(tagged)
        elif pl["slow"] == 0:
            self.feed(parts)
        else:
            self.feed(parts[:1])
            self.held.extend(tagged[1:])

    # ---- asyncio.subprocess.Process look-alike
    @property
    def stdout(self):
        return _StubReader(self)

    @property
    def stdin(self):
        return _StubWriter(self)

    async def wait(self):
        while self.returncode is None:
            self.exit_waiter = self.loop.create_future()
            await self.exit_waiter
        return self.returncode

    def kill(self):
        self._exit(-9)


class _StubReader:
    def __init__(self, sh):
        self.sh = sh

    async def read(self, n=-1):
        sh = self.sh
        while not sh.chunks:
            if sh.eof:
                return b""
            sh.waiter = sh.loop.create_future()
            try:
                await sh.waiter
            finally:
                sh.waiter = None
        c = sh.chunks[0]
        if n is None or n < 0 or len(c) <= n:
            sh.chunks.pop(0)
            return c
        sh.chunks[0] = c[n:]
        return c[:n]


class _StubWriter:
    def __init__(self, sh):
        self.sh = sh

    def write(self, data):
        self.sh.on_write(bytes(data))

    async def drain(self):
        return None

    def close(self):
        pass

    async def wait_closed(self):
        return None


class _Names:
    """random_name() -> '1', '2', ... (uuid4 is not deterministic)."""

    def __init__(self):
        self.n = 0

    def __call__(self):
        self.n += 1
        return str(self.n)


class _PatchShellModule:
    def __enter__(self):

        self.sm = sm
        self.old = sm.random_name
        sm.random_name = _Names()
        return self

    def __exit__(self, *a):
        self.sm.random_name = self.old
        return False


def _real_decoder():
    """The C incremental UTF-8 decoder that BaseShell.__init__ asks for (CrossHair substitutes a model of the
    codec machinery for symbolic text; all bytes here are concrete)."""
    import codecs

    try:
        from crosshair.tracers import NoTracing

        with NoTracing():
            return codecs.getincrementaldecoder("utf-8")(errors="replace")
    except ImportError:
        return codecs.getincrementaldecoder("utf-8")(errors="replace")


def _new_shell(loop, plan, first, buffer_size):

    sh = StubSh(loop, plan, first)
    shell = SubprocessShell(command=["sh"], buffer_size=buffer_size, process=sh)
    shell._decoder = _real_decoder()
    return shell, sh


def _fresh(pl):
    """what a fresh process returns for this command: run_in_subprocess's `stdout.decode().strip(), returncode`"""
    return (pl["out"].decode().strip(), pl["code"])


def prop_frame(out_i, code, c1, c2, capture=True, buffer_size=65536) -> bool:
    """One command on a fresh persistent shell: the result is exactly (output.strip(), exit code) for every
    way the answer is cut into reads; without capture_output it is None and the frame is consumed."""

    out = OUTS[concrete(out_i, len(OUTS))]
    code, c1, c2 = concrete(code, 256), concrete(c1, 64), concrete(c2, 64)
    if buffer_size != 65536:
        buffer_size = concrete(buffer_size, 64)
    capture = bool(capture)
    plan = [
        {"out": out, "code": code, "cuts": (c1, c2), "slow": 0},
        {"out": b"second\n", "code": 3, "cuts": (0, 0), "slow": 0},
    ]
    loop = DetLoop()
    with _PatchShellModule(), loop:
        shell, sh = _new_shell(loop, plan, 0, buffer_size)
        try:
            r = loop.run_until_complete(shell.execute(["cmd0"], capture_output=capture, timeout=TIMEOUT))
        except WorkflowExecutionException:
            return False
        if capture:
            if r != _fresh(plan[0]):
                return False
        elif r is not None:
            return False
        if len(sh.received) != 1 or sh.chunks:
            return False  # written exactly once, answer consumed completely
        # the next command on the same shell is unaffected
        r2 = loop.run_until_complete(shell.execute(["cmd1"], capture_output=True, timeout=TIMEOUT))
        return r2 == _fresh(plan[1]) and len(sh.received) == 2


class _World:
    """The real BaseConnector (get_shell / run with its shell-then-subprocess fallback) over stub processes."""

    def __init__(self, loop, plan):

        world = self
        self.loop = loop
        self.plan = plan
        self.shells = []  # (shell, stub process)
        self.started = [0] * len(plan)  # how many times command k was handed to some sh
        self.current = 0

        class Conn(BaseConnector):
            async def _create_shell(self, command, location):
                shell, sh = _new_shell(loop, plan, world.current, self.transferBufferSize)
                world.shells.append((shell, sh))
                return shell

            async def deploy(self, external):
                pass

            async def get_available_locations(self, service=None):
                return {}

            @classmethod
            def get_schema(cls):
                return ""

        self.conn = Conn("d", "/tmp", 65536)
        self.loc = ExecutionLocation(name="l", deployment="d")

    def before_next(self, k):
        """before command k is issued: a slow command with slow == 1 has finished by now"""
        for shell, sh in self.shells:
            if sh.returncode is None and any(j < k and self.plan[j]["slow"] == 1 for j, _, _ in sh.held):
                sh.release(k - 1)
        self.loop.run_until_quiescent()

    def after_written(self, k):
        """right after command k has been written: every earlier command has finished by now"""
        for shell, sh in self.shells:
            if sh.returncode is None and sh.held:
                sh.release(k - 1, k)


class _PatchSubprocess:
    """utils.run_in_subprocess := the reference 'fresh process' (the fallback of BaseConnector.run)."""

    def __init__(self, world):
        self.world = world

    def __enter__(self):

        self.u = u
        self.old = u.run_in_subprocess
        world = self.world

        async def run_in_subprocess(location, command, capture_output, timeout):
            pl = world.plan[world.current]
            world.fresh_runs.append(world.current)
            if pl["slow"]:
                raise asyncio.TimeoutError()
            return _fresh(pl) if capture_output else None

        world.fresh_runs = []
        u.run_in_subprocess = run_in_subprocess
        return self

    def __exit__(self, *a):
        self.u.run_in_subprocess = self.old
        return False


def prop_sequence(outs, codes, slows, captures, cut=0) -> bool:
    """Commands issued one after the other through BaseConnector.run. A command whose answer comes in time must
    return exactly what a fresh process returns for it — whatever happened to the commands before it."""

    n = len(outs)
    plan = []
    cut = concrete(cut, 64)
    captures = [bool(c) for c in captures]
    for k in range(n):
        plan.append({"out": OUTS[concrete(outs[k], len(OUTS))], "code": concrete(codes[k], 256), "cuts": (cut, cut), "slow": concrete(slows[k], 3)})
    loop = DetLoop()
    with _PatchShellModule(), loop:
        world = _World(loop, plan)
        with _PatchSubprocess(world):
            for k in range(n):
                world.current = k
                if k > 0:
                    world.before_next(k)
                task = loop.create_task(world.conn.run(world.loc, ["cmd" + str(k)], capture_output=captures[k], timeout=TIMEOUT))
                loop.run_until_quiescent()  # the command has been written (or answered)
                if k > 0:
                    world.after_written(k)
                try:
                    r = loop.run_until_complete(task)
                    failed = False
                except Exception:
                    r, failed = None, True
                if plan[k]["slow"]:
                    if not failed:
                        return False  # nothing can have been returned: the command is still running
                    continue
                if failed:
                    return False
                if captures[k]:
                    if r != _fresh(plan[k]):
                        return False
                elif r is not None:
                    return False
            loop.run_until_complete(world.conn.undeploy(False))
            return True


def prop_native_stale_output(capture_first: bool = True) -> bool:
    """Native reproduction with the real /bin/sh behind the real SubprocessShell (no stubs, real event loop):
    a command that times out (run with capture_output=capture_first), then `echo SECOND` on the shell that
    get_shell hands out next."""

    async def main():
        conn = LocalConnector("c25", "/tmp")
        loc = ExecutionLocation(name="__LOCAL__", deployment="c25", local=True)
        log = []
        try:
            shell = await conn.get_shell(["sh"], loc)
            try:
                r1 = await shell.execute(["sleep 1; echo LATE"], capture_output=capture_first, timeout=0.3)
            except WorkflowExecutionException as e:
                r1 = "raised: " + str(e)
            log.append(("first (times out, capture_output=" + str(capture_first) + ")", r1))
            shell2 = await conn.get_shell(["sh"], loc)
            log.append(("same shell object reused", shell2 is shell))
            r2 = await shell2.execute(["echo SECOND"], capture_output=True, timeout=10)
            log.append(("second", r2))
            return r2 == ("SECOND", 0), log
        finally:
            await BaseConnectorUndeploy(conn)

    async def BaseConnectorUndeploy(conn):

        await BaseConnector.undeploy(conn, False)

    ok, log = asyncio.run(main())
    _say("real /bin/sh through SubprocessShell:", log, "OK" if ok else "STALE OUTPUT ATTRIBUTED TO THE NEXT COMMAND")
    return ok


def prop_sequence_confirmed(outs, codes, slows, captures, cut=0) -> bool:
    """prop_sequence; a model-level failure counts only if the real shell reproduces it natively."""
    if prop_sequence(outs, codes, slows, captures, cut):
        return True
    if _tracing():
        return False
    for k in range(len(slows)):
        if slows[k]:
            return prop_native_stale_output(bool(captures[k]))
    return False


# ============================================================ obligations

IMPORTS = (
    "import streamflow.core.utils, streamflow.deployment.shell, streamflow.deployment.template\n"
    "from harness.C25 import *"
)


def _str_spec(name, group, call_fmt, alpha_name, alpha, nmin, nmax, targets, what, cond=900, fixed_first=None, finding_key=None):
    """One obligation over strings mk(alpha, n, i0..): n in nmin..nmax, indexes into alpha.
    fixed_first: partition on the first character (n >= 1, i0 == fixed_first)."""
    ks = list(range(nmax))
    params = ["n: int"] + [f"i{k}: int" for k in ks]
    pre = [f"{nmin} <= n <= {nmax}"]
    for k in ks:
        pre.append(f"0 <= i{k} <= {len(alpha) - 1}")
        pre.append(f"n > {k} or i{k} == 0")  # unused indexes are pinned: one path per string
    if fixed_first is not None:
        pre.append(f"n >= 1 and i0 == {fixed_first}")
    args = ", ".join(["n"] + [f"i{k}" for k in ks])
    return Spec(
        name=name,
        group=group,
        source=mk_source(IMPORTS, ", ".join(params), pre, call_fmt.format(alpha=alpha_name, args=args)),
        cond=cond,
        path=60,
        bound=f"{what}: every string of {nmin}..{nmax} characters over {alpha!r}"
        + (f" starting with {alpha[fixed_first]!r}" if fixed_first is not None else ""),
        symbolic=f"length and {nmax} alphabet indexes",
        targets=targets,
        finding_key=finding_key,
    )


G_ENV = "(A1) environment values reach the command verbatim"
G_WD = "(A2) the working directory reaches cd verbatim"
G_RED = "(A3) redirection file names and stream constants never alter the command"
G_SEQ = "(A4) the command does not run when cd fails (same chaining as the fresh-process rendering)"
G_WRAP = "(A5) connector wrapping (sh -c quote / re-split, default template) passes the line unchanged"

RENDERERS = {
    "create": ("create_command", T_CREATE),
    "build": ("_build_shell_command", T_BUILD),
    "template": ("CommandTemplateMap.get_command (queue-manager style template)", T_TEMPLATE),
}


def _ints(call: str) -> list:
    import re

    return [int(x) for x in re.findall(r"-?\d+", call[call.index("(") :])]


def _key_string(alpha):
    """known-finding key of a string counterexample h(n, i0, i1, ...): which class of text it is."""

    def key(call: str):
        try:
            v = _ints(call)
            text = mk(alpha, v[0], *(v[1:5] + [0, 0, 0, 0])[:4])
        except Exception:
            return None
        if any(ch in text for ch in "\"$`\\"):
            return "dquote-special"  # one of " $ ` \ : special inside the double quotes the renderer emits
        if any(ch in text for ch in " '*\n;"):
            return "unquoted-special"  # only special where the renderer emits no quotes at all (cd <workdir>)
        return "plain"

    return key


def _key_sequence(n):
    def key(call: str):
        try:
            v = _ints(call)
        except Exception:
            return None
        return "after-timeout"

    return key


def _specs_A(quick: bool) -> list:
    out = []
    nmax = 3 if quick else 4
    cond = 900 if quick else 3000
    parts = [None] if quick else list(range(len(ALPHA)))
    fk = _key_string(ALPHA)

    def add(name, group, call, targets, what, nmin=0, alpha_name="ALPHA", alpha=ALPHA, n=nmax, parts=parts, key=None):
        for part in parts:
            sfx = "" if part is None else f"_p{part}"
            out.append(_str_spec(name + sfx, group, call, alpha_name, alpha, nmin if part is None else 1, n, targets, what, cond, part, key))

    # the sites that build their own quoting: one obligation per renderer and field
    for r in ("create", "template"):
        rname, targets = RENDERERS[r]
        add(f"env_{r}_meta", G_ENV, "prop_env(" + repr(r) + ", {alpha}, {args})", targets, f"{rname}: environment {{'K': <string>, 'L': 'z'}}, command printenv K", key=fk)
        add(f"workdir_{r}_meta", G_WD, "prop_workdir(" + repr(r) + ", {alpha}, {args})", targets, f"{rname}: workdir '/w/' + <string>, command pwd", nmin=1, key=fk)
    rname, targets = RENDERERS["build"]
    add("env_workdir_build_meta", G_ENV, "prop_env_and_workdir('build', {alpha}, {args})", targets, f"{rname}: environment {{'K': <string>, 'L': 'z'}} with printenv K, and workdir '/w/' + <string> with pwd (same string)", key=fk)
    add("redirects_meta", G_RED, "prop_redirects({alpha}, {args})", T_CREATE, "create_command: stdin / stdout / stderr / stdout==stderr file name 'f' + <string>", key=fk)
    # strings with nothing for sh to interpret: must hold on any tree
    for r, (rname, targets) in RENDERERS.items():
        add(f"env_workdir_{r}_safe", G_ENV, "prop_env_and_workdir(" + repr(r) + ", {alpha}, {args})", targets, f"{rname}: environment value <string> and workdir '/w/' + <string>", alpha_name="SAFE", alpha=SAFE, n=3, parts=[None])
    add("redirects_safe", G_RED, "prop_redirects({alpha}, {args})", T_CREATE, "create_command: stdin / stdout / stderr file name 'f' + <string>", alpha_name="SAFE", alpha=SAFE, n=3, parts=[None])
    # every field at once
    k = 1
    kf = 0 if quick else 1
    names = ["nv", "v0", "v1", "nw", "w0", "w1", "nf", "f0", "f1"]
    pre = []
    for nn, a, b, kk in (("nv", "v0", "v1", k), ("nw", "w0", "w1", k), ("nf", "f0", "f1", kf)):
        pre += [f"0 <= {nn} <= {kk}", f"0 <= {a} <= {len(ALPHA) - 1}", f"0 <= {b} <= {len(ALPHA) - 1}", f"{nn} > 0 or {a} == 0", f"{nn} > 1 or {b} == 0"]
    out.append(
        Spec(
            name="create_all_fields",
            group=G_RED,
            source=mk_source(IMPORTS, ", ".join(f"{x}: int" for x in names), pre, "prop_all_fields(ALPHA, " + ", ".join(names) + ")"),
            cond=cond,
            path=60,
            bound=f"create_command with environment value, workdir, stdin, stdout and stderr all given: value and workdir tail are strings of 0..{k} characters, the file-name stem of 0..{kf} characters, over {ALPHA!r}",
            symbolic="3 lengths and 6 alphabet indexes",
            targets=T_CREATE,
            finding_key=lambda call: "any",
        )
    )
    out.append(
        Spec(
            name="create_std_constants",
            group=G_RED,
            source=mk_source(IMPORTS, "si: int, so: int, se: int", ["0 <= si <= 2", "0 <= so <= 2", "0 <= se <= 3"], "prop_std_constants(si, so, se)"),
            cond=600,
            path=60,
            bound="create_command with stdin in {None, DEVNULL, 'in file'}, stdout in {STDOUT, DEVNULL, 'out file'}, stderr in {STDOUT, DEVNULL, \"e'rr\", 'out file'} (every combination)",
            symbolic="3 selectors",
            targets=T_CREATE,
            finding_key=lambda call: "stdout-devnull" if _ints(call)[1:2] == [1] else "other",
        )
    )
    for r in ("create", "build"):
        add(
            f"cd_failure_aborts_{r}", G_SEQ, "prop_cd_failure_aborts(" + repr(r) + ", {alpha}, {args})", RENDERERS[r][1],
            f"{RENDERERS[r][0]}: workdir '/w/' + <string>, command pwd; cd / export / command must be chained with && (plain strings: quoting is not the subject)",
            alpha_name="SAFE", alpha=SAFE, n=2 if quick else 3, parts=[None], key=lambda call: "any",
        )
    nl = 2 if quick else 3
    ks = list(range(nl))
    pre = [f"0 <= which <= 1", f"0 <= n <= {nl}"]
    for q in ks:
        pre += [f"0 <= i{q} <= {len(ALPHA) - 1}", f"n > {q} or i{q} == 0"]
    out.append(
        Spec(
            name="local_run",
            group=G_WRAP,
            source=mk_source(IMPORTS, "which: int, big: bool, n: int, " + ", ".join(f"i{q}: int" for q in ks), pre, "prop_local_run(ALPHA, which, big, n, " + ", ".join(f"i{q}" for q in ks) + ")"),
            cond=cond,
            path=60,
            bound=f"LocalConnector.run -> run_in_subprocess -> create_subprocess_exec (recorded): which=0: environment value <string>, workdir '/w/x y'; which=1: workdir '/w/' + <string>, value 'v $x'; strings of 0..{nl} characters over {ALPHA!r}; the fake child's output fits the pipe or exceeds it (then the child exits only after the pipe has been read)",
            symbolic="selector, pipe-overflow flag, length, alphabet indexes",
            targets=T_LOCAL,
        )
    )
    add(
        "default_template_embeds_line", G_WRAP, "prop_default_template({alpha}, {args})", T_TEMPLATE,
        "ssh / queue-manager flow with the default template '#!/bin/sh\\n\\n{{streamflow_command}}': create_command's line for environment value <string> and workdir '/w/' + <string> is embedded unchanged",
        n=2 if quick else 3, parts=[None],
    )
    return out


G_FRAME = "(B1) one command: the result is exactly (output.strip(), exit code), for every chunking of the answer"
G_SEQS = "(B2) sequences: every command gets its own output and status, also after a time-out or failure"

_MARK = len("SF_CMD_END_1:") + 1  # + newline
LENS = [len(o) + _MARK for o in OUTS]  # answer length without the digits of the code
DIGITS = [len(str(c)) for c in CODES]


def _specs_B(quick: bool) -> list:
    out = []
    cond = 900 if quick else 3000
    no = len(OUTS) - 1
    out.append(
        Spec(
            name="frame_one_cut",
            group=G_FRAME,
            source=mk_source(
                IMPORTS, "o: int, ci: int, c1: int",
                [f"0 <= o <= {no}", f"0 <= ci <= {len(CODES) - 1}", f"0 <= c1 <= {LENS!r}[o] + {DIGITS!r}[ci]"],
                "prop_frame(o, CODES[ci], c1, c1)",
            ),
            cond=cond, path=60,
            bound=f"output in {OUTS!r}, exit code in {CODES!r}, the answer `output + marker:code\\n` arrives in two reads cut at ANY byte position (0..length); capture_output=True; then a second command on the same shell",
            symbolic="output index, code index, cut position",
            targets=T_SHELL,
        )
    )
    for o in [6] if quick else list(range(len(OUTS))):
        L = LENS[o] + 1
        out.append(
            Spec(
                name=f"frame_two_cuts_o{o}",
                group=G_FRAME,
                source=mk_source(IMPORTS, "c1: int, c2: int", [f"0 <= c1 <= c2 <= {L}"], f"prop_frame({o}, 0, c1, c2)"),
                cond=cond, path=60,
                bound=f"output {OUTS[o]!r}, exit code 0, the answer arrives in three reads cut at ANY two byte positions 0 <= c1 <= c2 <= {L} (multi-byte characters and the marker split across reads)",
                symbolic="two cut positions",
                targets=T_SHELL,
            )
        )
    lo, hi = (15, 16) if quick else (13, 18)
    out.append(
        Spec(
            name="frame_exit_code",
            group=G_FRAME,
            source=mk_source(IMPORTS, "code: int, c1: int", ["0 <= code <= 255", f"{lo} <= c1 <= {hi}"], "prop_frame(2, code, c1, c1)"),
            cond=cond, path=60,
            bound=f"output 'x\\n', EVERY exit code 0..255, answer cut before / inside / right after the code digits (byte positions {lo}..{hi}; the digits start at 15)",
            symbolic="exit code, cut position",
            targets=T_SHELL,
        )
    )
    out.append(
        Spec(
            name="frame_no_capture",
            group=G_FRAME,
            source=mk_source(IMPORTS, "o: int, c1: int", [f"0 <= o <= {no}", f"0 <= c1 <= {LENS!r}[o] + 1"], "prop_frame(o, 7, c1, c1, capture=False)"),
            cond=cond, path=60,
            bound=f"capture_output=False: output in {OUTS!r}, exit code 7, two reads cut at any byte position: returns None and consumes exactly its own frame (the next command gets its own output)",
            symbolic="output index, cut position",
            targets=T_SHELL,
        )
    )
    nb = 6 if quick else 12
    out.append(
        Spec(
            name="frame_buffer_size",
            group=G_FRAME,
            source=mk_source(IMPORTS, "o: int, b: int, cap: bool", [f"0 <= o <= {no}", f"1 <= b <= {nb}"], "prop_frame(o, 255, 0, 0, capture=cap, buffer_size=b)"),
            cond=cond, path=60,
            bound=f"the whole answer is available at once and is read in pieces of buffer_size = 1..{nb} bytes; output in {OUTS!r}, exit code 255, capture_output symbolic",
            symbolic="output index, buffer size, capture flag",
            targets=T_SHELL,
        )
    )
    # sequences through BaseConnector.run (get_shell, run_in_shell, fallback)
    T = T_SHELL + (
        "streamflow.deployment.connector.base.BaseConnector.run",
        "streamflow.deployment.connector.base.BaseConnector.get_shell",
        "streamflow.deployment.connector.base.BaseConnector.undeploy",
        "streamflow.core.utils.run_in_shell",
        "streamflow.deployment.connector.base.SubprocessShell._close",
    )
    o1s = [1, 5, 6] if quick else list(range(len(OUTS)))
    out.append(
        Spec(
            name="seq2_no_timeout",
            group=G_SEQS,
            source=mk_source(
                IMPORTS, "o0: int, j1: int, k0: int, cap0: bool, cap1: bool",
                [f"0 <= o0 <= {no}", f"0 <= j1 <= {len(o1s) - 1}", "0 <= k0 <= 2"] + (["cap1"] if quick else []),
                f"prop_sequence_confirmed([o0, {o1s!r}[j1]], [CODES[k0], 0], [0, 0], [cap0, cap1])",
            ),
            cond=cond, path=60,
            bound=f"two commands through BaseConnector.run on one location, both answer in time: first output any of {OUTS!r} with exit code in {CODES!r} (failed commands; no trailing newline), second output one of {[OUTS[k] for k in o1s]!r}; capture flags symbolic" + (" (second: captured)" if quick else ""),
            symbolic="2 output indexes, code index, capture flags",
            targets=T,
            finding_key=_key_sequence(2),
        )
    )
    out.append(
        Spec(
            name="seq2_timeout",
            group=G_SEQS,
            source=mk_source(
                IMPORTS, "o0: int, slow: int, cut: int, cap0: bool, cap1: bool",
                [f"0 <= o0 <= {no}", "1 <= slow <= 2", "0 <= cut <= " + ("1" if quick else "4")],
                "prop_sequence_confirmed([o0, 2], [7, 0], [slow, 0], [cap0, cap1], 3 * cut)",
            ),
            cond=cond, path=60,
            bound=f"two commands through BaseConnector.run; the first (output in {OUTS!r}, exit 7) answers only after the caller's time-out — its late answer arrives before (slow=1) or right after (slow=2) the second command is written; its first 3*cut bytes arrive in time; capture flags symbolic. The second command must return ('x', 0) or None",
            symbolic="output index, arrival time, cut, capture flags",
            targets=T,
            finding_key=_key_sequence(2),
        )
    )
    out.append(
        Spec(
            name="seq3_timeouts",
            group=G_SEQS,
            source=mk_source(
                IMPORTS, "s0: int, s1: int, cap0: bool, cap1: bool, cap2: bool" + ("" if quick else ", j2: int"),
                ["0 <= s0 <= 2", "0 <= s1 <= 2"] + ([] if quick else ["0 <= j2 <= 2"]),
                "prop_sequence_confirmed([7, 1, " + ("2" if quick else "[2, 5, 6][j2]") + "], [1, 2, 3], [s0, s1, 0], [cap0, cap1, cap2])",
            ),
            cond=cond, path=60,
            bound="three commands through BaseConnector.run; each of the first two answers in time / late before the next command / late after the next command (all 9 combinations); capture flags symbolic; distinct outputs and exit codes 1, 2, 3"
            + ("" if quick else "; the last output is one of 'x\\n', a frame-like line of another command, multi-byte text"),
            symbolic="2 arrival times, 3 capture flags" + ("" if quick else ", last output"),
            targets=T,
            finding_key=_key_sequence(3),
        )
    )
    return out


def specs(tier: str):
    quick = tier == "quick"
    return _specs_A(quick) + _specs_B(quick)
