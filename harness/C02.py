"""C02 — combinators emit exactly the right combinations, whatever the arrival order.

Real code executed symbolically: CombinatorStep.run, DotProductCombinator,
CartesianProductCombinator, Combinator._add_to_list/_add_to_port,
utils.dict_product/get_tag, _is_parent_tag.
"""

from __future__ import annotations

from lib.runner import Spec, mk_source

LEVEL = "other"
EXPLANATION = (
    "The real CombinatorStep is run on a deterministic loop; the merge order of the per-port token streams "
    "(which port delivers its next token or its termination) and every token's last tag component are solver "
    "variables. Two oracles: order-invariance against the canonical port-by-port order computed in the same path, "
    "and an exact reference for the shapes the statement fixes (same-depth dot product, broadcast of a shallower "
    "token, cartesian product with composite tags, and their nesting as the CWL translator builds it)."
)
ASSUMPTIONS = [
    "StubDatabase / DetLoop as in C01",
    "token values are concrete distinct integers (combinators never inspect values); tags '<prefix>.<i>' have a concrete prefix and a symbolic last component from a small range (0..2 / 0..3, and 8..11 to straddle the one/two digit boundary; CombinatorStep uses tags as dict keys, so every symbolic tag is realised by the solver: the range is enumerated through the path tree), distinct within a port (duplicate tags on one port are outside the claim)",
    "all tokens of one port have the same depth; a 'shallow' port carries a single token whose tag is the common prefix (the broadcast case of non-scattered inputs)",
    "tokens are delivered one at a time (put, run to quiescence, next put); combinator trees: dot(a,b), dot(a,b,c), cart(a,b), cart(a,b,c), dot(a,shallow), dot(dot(a,b),shallow), dot(cart(a,b),shallow), dot(a,shallow,root) with three tag depths (root = one token tagged with the parent of the shallow tag); cart(<inner combinator>, ...) is never built by the CWL translator and raises AttributeError in CartesianProductCombinator._product (latent, see DESIGN.md) — outside the claim",
]

T = (
    "streamflow.workflow.step.CombinatorStep.run",
    "streamflow.workflow.step.Combinator._add_to_list",
    "streamflow.workflow.step.Combinator._add_to_port",
    "streamflow.workflow.step._is_parent_tag",
    "streamflow.workflow.combinator.DotProductCombinator.combine",
    "streamflow.workflow.combinator.DotProductCombinator._product",
    "streamflow.workflow.combinator.CartesianProductCombinator.combine",
    "streamflow.workflow.combinator.CartesianProductCombinator._product",
    "streamflow.workflow.combinator.CartesianProductCombinator._add_to_port",
    "streamflow.core.utils.dict_product",
    "streamflow.core.utils.get_tag",
)

# tree := port name | (kind, [children], depth)
TREES = {
    "dot2": ("dot", ["a", "b"]),
    "dot3": ("dot", ["a", "b", "c"]),
    "cart2": ("cart", ["a", "b"]),
    "cart3": ("cart", ["a", "b", "c"]),
    "dot_bcast": ("dot", ["a", "s"]),
    "dot_dot_bcast": ("dot", [("dot", ["a", "b"]), "s"]),
    "dot_cart_bcast": ("dot", [("cart", ["a", "b"]), "s"]),
    # three tag depths meeting in one combinator: a = '<prefix>.<i>', s = '<prefix>', r = parent of <prefix>
    "dot_bcast2": ("dot", ["a", "s", "r"]),
}


def _leaves(tree):
    if isinstance(tree, str):
        return [tree]
    out = []
    for ch in tree[1]:
        out += _leaves(ch)
    return out


def _build(tree, wf, counter):
    from streamflow.workflow.combinator import CartesianProductCombinator, DotProductCombinator

    kind, children = tree[0], tree[1]
    counter[0] += 1
    name = f"{kind}{counter[0]}"
    comb = DotProductCombinator(name=name, workflow=wf) if kind == "dot" else CartesianProductCombinator(name=name, workflow=wf)
    for ch in children:
        if isinstance(ch, str):
            comb.add_item(ch)
        else:
            inner = _build(ch, wf, counter)
            comb.add_combinator(inner, inner.get_items(recursive=True))
    return comb


def _is_term(t) -> bool:
    from streamflow.workflow.token import TerminationToken

    return isinstance(t, TerminationToken)


def _run(tree, streams, order):
    """streams: {port: [(tag, value), ...]}; order: list of symbolic ints; order[k]
    picks (among ports that still have something to deliver) who delivers next.
    order=None => canonical port-by-port order. Returns (rows, ok) where rows is a
    dict value-tuple -> (tag per port tuple, provenance_ok)."""
    from lib.detloop import DetLoop, Prune
    from lib.stubs import StubContext, new_workflow
    from streamflow.core.workflow import Status, Token
    from streamflow.workflow.step import CombinatorStep
    from streamflow.workflow.token import TerminationToken

    ctx = StubContext()
    wf = new_workflow(ctx)
    db = ctx.database
    loop = DetLoop()
    ports = _leaves(tree)
    with loop:
        comb = _build(tree, wf, [0])
        step = wf.create_step(cls=CombinatorStep, name="/comb", combinator=comb)
        inp, outp = {}, {}
        for p in ports:
            inp[p] = wf.create_port(name="in_" + p)
            outp[p] = wf.create_port(name="out_" + p)
            step.add_input_port(p, inp[p])
            step.add_output_port(p, outp[p])
        loop.run_until_complete(wf.save(db))
        run_task = loop.create_task(step.run())
        loop.run_until_quiescent()
        pending = {p: list(streams[p]) + [None] for p in ports}  # None = termination
        ids = {}  # value -> persistent id of the input token
        total = sum(len(v) for v in pending.values())
        for k in range(total):
            alive = [p for p in ports if pending[p]]
            who = alive[0]
            if order is not None and k < len(order) and len(alive) > 1:
                c = order[k]
                who = None
                for i in range(len(alive)):
                    if c == i:
                        who = alive[i]
                if who is None:
                    raise Prune()
            item = pending[who].pop(0)
            if item is None:
                inp[who].put(TerminationToken(Status.COMPLETED))
            else:
                tok = Token(value=item[1], tag=item[0])
                loop.run_until_complete(tok.save(db, port_id=inp[who].persistent_id))
                ids[item[1]] = tok.persistent_id
                inp[who].put(tok)
            loop.run_until_quiescent()
        loop.run_until_complete(run_task)
        lists = {p: outp[p].token_list for p in ports}
        n = None
        for p in ports:
            tl = lists[p]
            if not tl or not _is_term(tl[-1]):
                return None
            if any(_is_term(t) for t in tl[:-1]):
                return None
            if n is None:
                n = len(tl) - 1
            elif n != len(tl) - 1:
                return None
        if not step.terminated:
            return None
        rows = {}
        for r in range(n):
            key = tuple(lists[p][r].value for p in ports)
            if key in rows:
                return None  # the same combination emitted twice
            tags = tuple(lists[p][r].tag for p in ports)
            want = sorted(ids[v] for v in key)
            prov_ok = True
            for p in ports:
                t = lists[p][r]
                if t.persistent_id is None:
                    prov_ok = False
                    continue
                rec = [x[0] for x in db.provenance if x[1] == t.persistent_id]
                if len(rec) != 1 or sorted(rec[0]) != want or any(i >= t.persistent_id for i in rec[0]):
                    prov_ok = False
            rows[key] = (tags, prov_ok)
        return rows


def _pref(prefix, p, k):
    """prefix is a str (same for all) or {port: [prefix per token]}."""
    if isinstance(prefix, str):
        return prefix
    return prefix[p][k]


def _streams(tree_name, prefix, idx):
    """idx: {port: [symbolic last components]}; shallow port 's' gets one token per
    distinct prefix, tagged with that prefix (the broadcast tokens)."""
    tree = TREES[tree_name]
    ports = _leaves(tree)
    streams = {}
    for pi, p in enumerate(ports):
        if p == "s":
            if isinstance(prefix, str):
                streams[p] = [(prefix, 900)]
            else:
                streams[p] = [(q, 900 + j) for j, q in enumerate(prefix["s"])]
        elif p == "r":
            root = ".".join(prefix.split(".")[:-1]) if isinstance(prefix, str) else prefix["r"][0]
            streams[p] = [(root, 950)]
        else:
            streams[p] = [(_pref(prefix, p, k) + "." + str(i), 100 * (pi + 1) + k) for k, i in enumerate(idx[p])]
    return tree, ports, streams


def prop_order_invariant(tree_name, prefix, idx, order) -> bool:
    from lib.detloop import Prune

    tree, ports, streams = _streams(tree_name, prefix, idx)
    try:
        got = _run(tree, streams, order)
    except Prune:
        return True
    base = _run(tree, streams, None)
    if got is None or base is None:
        return False
    if len(got) != len(base):
        return False
    for key, (tags, prov_ok) in got.items():
        if key not in base:
            return False
        if base[key][0] != tags:
            return False
        if not prov_ok:
            return False
    return True


def prop_exact(tree_name, prefix, idx, order) -> bool:
    """Exact reference for the shapes the statement fixes."""
    from lib.detloop import Prune

    tree, ports, streams = _streams(tree_name, prefix, idx)
    try:
        got = _run(tree, streams, order)
    except Prune:
        return True
    if got is None:
        return False
    # reference rows: dict value-tuple -> expected tag
    exp = {}
    deep = [p for p in ports if p not in ("s", "r")]

    def bcast(pref):
        """value of the shallow token whose tag is exactly `pref` (None if absent)."""
        if "s" not in ports:
            return -1
        for tg, v in streams["s"]:
            if tg == pref:
                return v
        return None

    if tree_name in ("dot2", "dot3", "dot_bcast", "dot_dot_bcast", "dot_bcast2"):
        # one row per tag present on every deep port (+ the broadcast token of that prefix)
        first = deep[0]
        for k0, i0 in enumerate(idx[first]):
            pref = _pref(prefix, first, k0)
            vals = [streams[first][k0][1]]
            ok = True
            for p in deep[1:]:
                found = None
                for k, i in enumerate(idx[p]):
                    if i == i0 and _pref(prefix, p, k) == pref:
                        found = k
                if found is None:
                    ok = False
                    break
                vals.append(streams[p][found][1])
            b = bcast(pref)
            if ok and b is not None:
                if b != -1:
                    vals.append(b)
                if "r" in ports:  # the single root token is an ancestor of every deep tag
                    vals.append(streams["r"][0][1])
                exp[tuple(vals)] = pref + "." + str(i0)
    elif tree_name in ("cart2", "cart3", "dot_cart_bcast"):
        import itertools

        for combo in itertools.product(*[range(len(idx[p])) for p in deep]):
            prefs = [_pref(prefix, p, k) for p, k in zip(deep, combo)]
            if any(q != prefs[0] for q in prefs):
                continue  # the cross product is taken within one parent tag
            vals = [streams[p][k][1] for p, k in zip(deep, combo)]
            tag = prefs[0]
            for p, k in zip(deep, combo):
                tag = tag + "." + str(idx[p][k])
            b = bcast(prefs[0])
            if b is None:
                continue
            if b != -1:
                vals.append(b)
            exp[tuple(vals)] = tag
    else:
        return True
    if len(got) != len(exp):
        return False
    for key, (tags, prov_ok) in got.items():
        if key not in exp:
            return False
        for t in tags:
            if t != exp[key]:
                return False
        if not prov_ok:
            return False
    return True


# ---------------------------------------------------------------- obligations

IMPORTS = "from harness.C02 import *"


def _spec(tree_name, counts, K, fn, prefix="0", lo=0, hi=2, cond=900, first=None, tagname=""):
    """counts: {port: ntokens}; K symbolic merge choices; first: concrete value of the
    first choice (partition); prefix: str or {port: [concrete prefix per token]}."""
    tree = TREES[tree_name]
    ports = [p for p in _leaves(tree) if p not in ("s", "r")]
    names = {p: [f"{p}{k}" for k in range(counts[p])] for p in ports}
    cs = [f"m{i}" for i in range(K)]
    sym_cs = cs if first is None else cs[1:]
    params = [f"{x}: int" for p in ports for x in names[p]] + [f"{c}: int" for c in sym_cs]
    pre = [f"{lo} <= {x} <= {hi}" for p in ports for x in names[p]]
    for p in ports:
        ns = names[p]
        for i, a in enumerate(ns):
            for j in range(i + 1, len(ns)):
                if _pref(prefix, p, i) == _pref(prefix, p, j):
                    pre.append(f"{a} != {ns[j]}")
    nports = len(_leaves(tree))
    pre += [f"0 <= {c} <= {nports - 1}" for c in sym_cs]
    idx = "{" + ", ".join(f"{p!r}: [{', '.join(names[p])}]" for p in ports) + "}"
    order = "[" + ", ".join(([str(first)] if first is not None else []) + sym_cs) + "]"
    nshallow = 0 if "s" not in _leaves(tree) else (1 if isinstance(prefix, str) else len(prefix["s"]))
    nshallow += 1 if "r" in _leaves(tree) else 0
    total = sum(counts.values()) + nports + nshallow
    cn = "".join(f"{p}{counts[p]}" for p in ports)
    return Spec(
        name=f"{fn}_{tree_name}_{cn}_K{K}" + ("" if first is None else f"_f{first}") + tagname,
        group={"exact": "(b) exact reference: one row per common tag / full cross product with composite tags / broadcast", "order_invariant": "(a) emitted rows do not depend on the arrival order"}[fn],
        source=mk_source(IMPORTS, ", ".join(params), pre, f"prop_{fn}({tree_name!r}, {prefix!r}, {idx}, {order})"),
        cond=cond,
        path=60,
        bound=f"tree {tree_name}={tree}; tokens per port {counts}; tag prefixes {prefix!r} (concrete) + symbolic last component in {lo}..{hi}, distinct within a port and prefix; the first {K} of {total} deliveries (tokens and terminations) are picked by symbolic choices among the ports still delivering"
        + (f" (partition: first choice = {first})" if first is not None else "")
        + ", the rest in port order",
        symbolic=f"{sum(counts.values())} tag components, {len(sym_cs)} merge choices",
        targets=T,
    )


# parent tags that are string-prefixes of one another but different tags
MIXED = {"a": ["0.1", "0.10"], "s": ["0.1", "0.10"]}
MIXED2 = {"a": ["0.1", "0.10"], "b": ["0.10", "0.1"], "s": ["0.10"]}
MIXED3 = {"a": ["0.1", "0.10"], "s": ["0.1", "0.10"], "r": ["0"]}


def specs(tier: str):
    quick = tier == "quick"
    out = []
    two = {"a": 2, "b": 2}
    if quick:
        for f in (0, 1):
            out.append(_spec("dot2", two, 5, "exact", first=f))
            out.append(_spec("cart2", two, 5, "exact", first=f))
        out.append(_spec("dot_bcast", {"a": 2}, 4, "exact"))
        for f in (0, 1, 2):
            out.append(_spec("dot_dot_bcast", {"a": 2, "b": 1}, 4, "exact", first=f))
            out.append(_spec("dot_cart_bcast", {"a": 2, "b": 1}, 4, "exact", first=f))
        out.append(_spec("dot3", {"a": 1, "b": 2, "c": 1}, 3, "exact", hi=1))
        out.append(_spec("cart3", {"a": 1, "b": 2, "c": 1}, 3, "exact", hi=1))
        out.append(_spec("dot2", {"a": 1, "b": 1}, 3, "exact", lo=8, hi=11, tagname="_8to11"))
        out.append(_spec("cart2", {"a": 1, "b": 1}, 3, "exact", lo=8, hi=11, tagname="_8to11"))
        out.append(_spec("dot_bcast", {"a": 2}, 4, "exact", prefix=MIXED, hi=1, tagname="_mixedparents"))
        out.append(_spec("dot_dot_bcast", {"a": 2, "b": 2}, 3, "exact", prefix=MIXED2, hi=1, tagname="_mixedparents"))
        out.append(_spec("dot_cart_bcast", {"a": 2, "b": 2}, 3, "exact", prefix=MIXED2, hi=1, tagname="_mixedparents"))
        for f in (0, 1, 2):
            out.append(_spec("dot_bcast2", {"a": 2}, 4, "exact", prefix="0.1", hi=1, first=f, tagname="_3depths"))
        out.append(_spec("dot2", two, 3, "order_invariant", hi=1))
    else:
        for f in (0, 1):
            out.append(_spec("dot2", {"a": 3, "b": 2}, 5, "exact", hi=3, cond=3000, first=f))
            out.append(_spec("cart2", {"a": 3, "b": 2}, 5, "exact", hi=3, cond=3000, first=f))
            out.append(_spec("dot2", two, 5, "exact", hi=3, cond=3000, first=f))
            out.append(_spec("cart2", two, 5, "exact", hi=3, cond=3000, first=f))
            out.append(_spec("dot_bcast", {"a": 3}, 5, "exact", hi=3, cond=3000, first=f))
            out.append(_spec("dot_bcast", {"a": 2}, 5, "exact", prefix=MIXED, tagname="_mixedparents", cond=3000, first=f))
        for f in (0, 1, 2):
            out.append(_spec("dot_dot_bcast", {"a": 2, "b": 2}, 4, "exact", hi=1, cond=3000, first=f))
            out.append(_spec("dot_cart_bcast", {"a": 2, "b": 2}, 4, "exact", hi=1, cond=3000, first=f))
            out.append(_spec("dot_dot_bcast", {"a": 2, "b": 1}, 5, "exact", cond=3000, first=f))
            out.append(_spec("dot_cart_bcast", {"a": 2, "b": 1}, 5, "exact", cond=3000, first=f))
            out.append(_spec("dot3", {"a": 2, "b": 2, "c": 1}, 4, "exact", hi=1, cond=3000, first=f))
            out.append(_spec("cart3", {"a": 2, "b": 2, "c": 1}, 4, "exact", hi=1, cond=3000, first=f))
            out.append(_spec("dot_dot_bcast", {"a": 2, "b": 2}, 4, "exact", prefix=MIXED2, hi=1, tagname="_mixedparents", cond=3000, first=f))
            out.append(_spec("dot_cart_bcast", {"a": 2, "b": 2}, 4, "exact", prefix=MIXED2, hi=1, tagname="_mixedparents", cond=3000, first=f))
            out.append(_spec("dot_bcast2", {"a": 2}, 5, "exact", prefix="0.1", hi=2, first=f, tagname="_3depths", cond=3000))
            out.append(_spec("dot_bcast2", {"a": 2}, 4, "exact", prefix=MIXED3, hi=1, first=f, tagname="_3depths_mixedparents", cond=3000))
        out.append(_spec("dot2", two, 4, "exact", lo=8, hi=11, tagname="_8to11", cond=3000))
        out.append(_spec("cart2", two, 4, "exact", lo=8, hi=11, tagname="_8to11", cond=3000))
        out.append(_spec("dot2", {"a": 3, "b": 2}, 4, "order_invariant", hi=2, cond=3000))
    return out
