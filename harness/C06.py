"""C06 — loops emit the last/all iteration values in iteration order, for any count.

Real code executed symbolically: LoopOutputStep.run, CWLLoopOutputAllStep /
CWLLoopOutputLastStep._process_output, LoopCombinatorStep.run,
LoopCombinator._product, LoopTerminationCombinator._product, CombinatorStep.run.
"""

from __future__ import annotations

from lib.runner import Spec, mk_source

LEVEL = "other"
EXPLANATION = (
    "Step-level lemmas over the real loop steps on a deterministic loop. The input port of the loop-output step is "
    "fed with the merge of two FIFO producers exactly as the CWL translator wires them (iteration values from the "
    "forward transformer, IterationTerminationToken markers from the loop condition's skip port); iteration counts, "
    "the arrival permutation of the iteration tokens, the marker position, the interleaving of loop instances and "
    "the values are solver variables. A second lemma runs the real LoopCombinatorStep (iteration counters, "
    "termination check-list) and a third the LoopTerminationCombinator. "
    "Executor level (harness/C06_graph.py): the whole loop sub-graph wired exactly as the CWL translator wires a cwltool:Loop step is run by the real StreamFlowExecutor; "
    "initial values, the limit (0..3/0..4 iterations per instance, 11-12 with concrete values) and windows of 2-4 scheduling decisions (at start-up, at iteration starts, at loop exit, in the termination cascade) are solver variables; "
    "run() must return the last value / the list of all iteration values per instance, with exactly one token per instance on the loop output port, every step COMPLETED/SKIPPED and every port terminated."
)
ASSUMPTIONS = [
    "StubDatabase / DetLoop as in C01",
    "histories are causal w.r.t. the translator's wiring: every producer's TerminationToken follows all iteration values and markers of every instance "
    "(the forward transformer terminates only after the loop body, which terminates only after the loop condition step, whose termination needs the loop output of every instance; see DESIGN.md C06)",
    "iteration tokens of an instance carry tags <prefix>.0 .. <prefix>.(n-1) in ANY arrival order and the marker carries <prefix>.n (what LoopCombinator and the loop condition produce); instance prefixes are concrete ('0', '0.1', '0.10')",
    "n <= 3 iterations per instance with a fully symbolic arrival permutation; n in {10, 11, 12} with the in-order arrival perturbed by one symbolic transposition and a symbolic marker position",
    "executor-level loop graph: real ForwardTransformer/LoopCombinatorStep/CWLLoopConditionalStep/CWLLoopOutput*Step/CombinatorStep(LoopTerminationCombinator)/ScatterStep/GatherStep/StreamFlowExecutor; stubs: the loop condition's JavaScript evaluation is replaced by `i < limit` (subclass overriding _eval only), "
    "the loop body is a harness Transformer (i + 1, tag unchanged), the translator's workflow-output collector chain (CWLTokenTransformer -> ScheduleStep -> CWLTransferStep) is one forwarding Transformer, StubDatabase, utils.random_name/time_ns replaced by counters; "
    "one loop variable i (optionally a second one, the limit, carried along without loop source), one loop instance or a scatter of 1-2 elements; schedules are FIFO except K (2-4) consecutive solver-chosen picks (each among the first 6 ready callbacks) in a window anchored at an event of the run; "
    "code between the points that read symbolic values (condition, body, scheduling picks, final comparison) runs with CrossHair's tracer switched off (same path counts as the fully traced run, measured once: 150 paths, 306 s vs 10 s)",
]

T_OUT = (
    "streamflow.workflow.step.LoopOutputStep.run",
    "streamflow.cwl.step.CWLLoopOutputAllStep._process_output",
    "streamflow.cwl.step.CWLLoopOutputLastStep._process_output",
    "streamflow.workflow.step.BaseStep._persist_token",
    "streamflow.workflow.step.BaseStep.terminate",
)
T_COMB = (
    "streamflow.workflow.step.LoopCombinatorStep.run",
    "streamflow.workflow.combinator.LoopCombinator._product",
    "streamflow.workflow.combinator.DotProductCombinator._product",
    "streamflow.workflow.combinator.DotProductCombinator.combine",
    "streamflow.workflow.step.Combinator._add_to_list",
)
T_TERM = (
    "streamflow.workflow.step.CombinatorStep.run",
    "streamflow.workflow.combinator.LoopTerminationCombinator._product",
    "streamflow.workflow.combinator.DotProductCombinator._product",
)


def _mk():
    from lib.detloop import DetLoop
    from lib.stubs import StubContext, new_workflow

    ctx = StubContext()
    wf = new_workflow(ctx)
    return ctx, wf, DetLoop()


def _is_term(t) -> bool:
    from streamflow.workflow.token import TerminationToken

    return isinstance(t, TerminationToken)


# ------------------------------------------------------------ loop output step


def _loop_output(method_all, instances, merge, check_prov=True):
    """instances: list of (prefix, arrival: list of iteration indexes in arrival order,
    vals: value per iteration index, mpos: marker position 0..n).
    merge: list of symbolic ints: which instance delivers its next item."""
    from lib.detloop import Prune
    from streamflow.core.workflow import Status, Token
    from streamflow.cwl.step import CWLLoopOutputAllStep, CWLLoopOutputLastStep
    from streamflow.workflow.token import IterationTerminationToken, ListToken, TerminationToken

    ctx, wf, loop = _mk()
    db = ctx.database
    with loop:
        inp = wf.create_port(name="in")
        outp = wf.create_port(name="out")
        step = wf.create_step(cls=CWLLoopOutputAllStep if method_all else CWLLoopOutputLastStep, name="/lo")
        step.add_input_port("x", inp)
        step.add_output_port("x", outp)
        loop.run_until_complete(wf.save(db))
        run_task = loop.create_task(step.run())
        loop.run_until_quiescent()
        # per instance: the item stream (values in arrival order with the marker inserted at mpos)
        streams = []
        tok_ids = []
        for prefix, arrival, vals, mpos in instances:
            n = len(arrival)
            items = []
            for j in range(n + 1):
                if j == mpos:
                    items.append(("M", n))
                if j < n:
                    items.append(("V", arrival[j]))
            streams.append(items)
            tok_ids.append({})
        total = sum(len(s) for s in streams)
        emitted_before_term = None
        for k in range(total):
            alive = [i for i in range(len(streams)) if streams[i]]
            who = alive[0]
            if k < len(merge) and len(alive) > 1:
                who = None
                for i in range(len(alive)):
                    if merge[k] == i:
                        who = alive[i]
                if who is None:
                    raise Prune()
            kind, x = streams[who].pop(0)
            prefix, arrival, vals, mpos = instances[who]
            if kind == "M":
                inp.put(IterationTerminationToken(tag=prefix + "." + str(x)))
            else:
                t = Token(value=vals[x], tag=prefix + "." + str(x))
                loop.run_until_complete(t.save(db, port_id=inp.persistent_id))
                tok_ids[who][x] = t.persistent_id
                inp.put(t)
            loop.run_until_quiescent()
            if step.terminated:
                return False  # terminated before the producers did
        # every instance must have emitted BEFORE any termination token is delivered
        outs = [t for t in outp.token_list]
        if len(outs) != len(instances) or any(_is_term(t) for t in outs):
            return False
        inp.put(TerminationToken(Status.COMPLETED))
        inp.put(TerminationToken(Status.COMPLETED))
        loop.run_until_complete(run_task)
        out = outp.token_list
        if len(out) != len(instances) + 1 or not _is_term(out[-1]):
            return False
        for who, (prefix, arrival, vals, mpos) in enumerate(instances):
            n = len(arrival)
            found = [t for t in out[:-1] if t.tag == prefix]
            if len(found) != 1:
                return False
            t = found[0]
            if method_all:
                if not isinstance(t, ListToken) or len(t.value) != n:
                    return False
                for i in range(n):
                    if t.value[i].value != vals[i]:
                        return False
            else:
                if n == 0:
                    if t.value is not None:
                        return False
                elif t.value != vals[n - 1]:
                    return False
            if check_prov and n > 0:
                if t.persistent_id is None:
                    return False
                rec = [p[0] for p in db.provenance if p[1] == t.persistent_id]
                if len(rec) != 1 or sorted(rec[0]) != sorted(tok_ids[who].values()):
                    return False
        want = Status.COMPLETED
        if not step.terminated or step.status != want:
            return False
        return True


def prop_loop_output_small(method_all, ns, qs, vs, mps, merge, prefixes) -> bool:
    """ns[i] symbolic iteration count (<= 3) of instance i; qs[i] = [q0,q1,q2]: iteration index of the
    j-th arriving token (first ns[i] entries are a permutation of 0..ns[i]-1 by precondition)."""
    from lib.detloop import Prune

    instances = []
    for i, prefix in enumerate(prefixes):
        n = ns[i]
        arrival = []
        for j in range(3):
            if j < n:
                arrival.append(qs[i][j])
        instances.append((prefix, arrival, vs[i], mps[i]))
    try:
        return _loop_output(method_all, instances, merge)
    except Prune:
        return True


def prop_loop_output_long(method_all, n, i, j, mpos_sel, vals_seed) -> bool:
    """n >= 10 iterations, arrival = in-order with positions i and j swapped, marker first/middle/last."""
    arrival = list(range(n))
    a, b = None, None
    for x in range(n):
        if i == x:
            a = x
        if j == x:
            b = x
    if a is None or b is None:
        return True
    arrival[a], arrival[b] = arrival[b], arrival[a]
    mpos = 0
    if mpos_sel == 1:
        mpos = n // 2
    elif mpos_sel == 2:
        mpos = n
    vals = [vals_seed + 7 * k for k in range(n)]
    return _loop_output(method_all, [("0", arrival, vals, mpos)], [], check_prov=False)


# ------------------------------------------------------------ loop combinator step


def prop_loop_combinator(rounds, prefixes, merge, vseed) -> bool:
    """LoopCombinatorStep with ports a,b. Every instance p (concrete prefix) performs rounds[p]
    iterations: initial tokens tagged p on both ports, then for each further round the
    loop-back tokens tagged p.<k-1>; finally the IterationTerminationToken(p) on both ports.
    External TerminationTokens are delivered right after the initial tokens (the input
    forwarders terminate early), i.e. while the loop is still running.
    merge: symbolic choices picking which (instance, port) stream delivers next."""
    from lib.detloop import Prune
    from streamflow.core.workflow import Status, Token
    from streamflow.workflow.combinator import LoopCombinator
    from streamflow.workflow.step import LoopCombinatorStep
    from streamflow.workflow.token import IterationTerminationToken, TerminationToken

    ctx, wf, loop = _mk()
    db = ctx.database
    ports = ["a", "b"]
    try:
        with loop:
            comb = LoopCombinator(name="lc", workflow=wf)
            for p in ports:
                comb.add_item(p)
            step = wf.create_step(cls=LoopCombinatorStep, name="/lc", combinator=comb)
            inp, outp = {}, {}
            for p in ports:
                inp[p] = wf.create_port(name="in_" + p)
                outp[p] = wf.create_port(name="out_" + p)
                step.add_input_port(p, inp[p])
                step.add_output_port(p, outp[p])
            loop.run_until_complete(wf.save(db))
            run_task = loop.create_task(step.run())
            loop.run_until_quiescent()
            # phase 1: initial tokens of every instance on every port, then external terminations
            for pi, prefix in enumerate(prefixes):
                for p in ports:
                    t = Token(value=vseed + 100 * pi, tag=prefix)
                    loop.run_until_complete(t.save(db, port_id=inp[p].persistent_id))
                    inp[p].put(t)
                    loop.run_until_quiescent()
            for p in ports:
                inp[p].put(TerminationToken(Status.COMPLETED))
                loop.run_until_quiescent()
            if step.terminated:
                return False  # must wait for the iteration terminations
            # phase 2: per (instance, port) stream of loop-back tokens then the iteration termination
            streams = []
            for pi, prefix in enumerate(prefixes):
                r = rounds[pi]
                for p in ports:
                    items = []
                    for k in range(1, 4):
                        if k < r:
                            items.append(("V", prefix + "." + str(k - 1), vseed + 100 * pi + k))
                    items.append(("I", prefix, None))
                    streams.append((p, items))
            total = sum(len(s[1]) for s in streams)
            for k in range(total):
                alive = [i for i in range(len(streams)) if streams[i][1]]
                who = alive[0]
                if k < len(merge) and len(alive) > 1:
                    who = None
                    for i in range(len(alive)):
                        if merge[k] == i:
                            who = alive[i]
                    if who is None:
                        raise Prune()
                p, items = streams[who]
                kind, tag, val = items.pop(0)
                if kind == "I":
                    inp[p].put(IterationTerminationToken(tag=tag))
                else:
                    t = Token(value=val, tag=tag)
                    loop.run_until_complete(t.save(db, port_id=inp[p].persistent_id))
                    inp[p].put(t)
                loop.run_until_quiescent()
                remaining = sum(len(s[1]) for s in streams)
                if remaining > 0 and step.terminated:
                    return False  # terminated while an instance is still iterating
            loop.run_until_complete(run_task)
            for p in ports:
                out = outp[p].token_list
                if not out or not _is_term(out[-1]):
                    return False
                for pi, prefix in enumerate(prefixes):
                    r = rounds[pi]
                    mine = [t for t in out[:-1] if t.tag == prefix or t.tag.startswith(prefix + ".")]
                    # exactly r products, the k-th retagged prefix.k, carrying the k-th value
                    if len(mine) != r:
                        return False
                    for k in range(len(mine)):
                        if mine[k].tag != prefix + "." + str(k):
                            return False
                        if mine[k].value != vseed + 100 * pi + k:
                            return False
            return step.terminated
    except Prune:
        return True


# ------------------------------------------------------------ loop termination combinator


def prop_loop_termination(tags_order, merge) -> bool:
    """LoopTerminationCombinator over ports x,y with output items x,y: for every tag present on
    both ports exactly one IterationTerminationToken(tag) per output item."""
    from lib.detloop import Prune
    from streamflow.core.workflow import Status, Token
    from streamflow.workflow.combinator import LoopTerminationCombinator
    from streamflow.workflow.step import CombinatorStep
    from streamflow.workflow.token import IterationTerminationToken, TerminationToken

    ctx, wf, loop = _mk()
    db = ctx.database
    ports = ["x", "y"]
    try:
        with loop:
            comb = LoopTerminationCombinator(name="ltc", workflow=wf)
            step = wf.create_step(cls=CombinatorStep, name="/lt", combinator=comb)
            inp, outp = {}, {}
            for p in ports:
                inp[p] = wf.create_port(name="in_" + p)
                outp[p] = wf.create_port(name="out_" + p)
                step.add_input_port(p, inp[p])
                step.add_output_port(p, outp[p])
                comb.add_item(p)
                comb.add_output_item(p)
            loop.run_until_complete(wf.save(db))
            run_task = loop.create_task(step.run())
            loop.run_until_quiescent()
            streams = [(p, [("V", tg) for tg in tags_order[pi]] + [("T", None)]) for pi, p in enumerate(ports)]
            total = sum(len(s[1]) for s in streams)
            for k in range(total):
                alive = [i for i in range(2) if streams[i][1]]
                who = alive[0]
                if k < len(merge) and len(alive) > 1:
                    who = None
                    for i in range(len(alive)):
                        if merge[k] == i:
                            who = alive[i]
                    if who is None:
                        raise Prune()
                p, items = streams[who]
                kind, tg = items.pop(0)
                if kind == "T":
                    inp[p].put(TerminationToken(Status.COMPLETED))
                else:
                    t = Token(value=1, tag=tg)
                    loop.run_until_complete(t.save(db, port_id=inp[p].persistent_id))
                    inp[p].put(t)
                loop.run_until_quiescent()
            loop.run_until_complete(run_task)
            common = [tg for tg in tags_order[0] if tg in tags_order[1]]
            for p in ports:
                out = outp[p].token_list
                if not out or not _is_term(out[-1]):
                    return False
                its = out[:-1]
                if len(its) != len(common):
                    return False
                for t in its:
                    if not isinstance(t, IterationTerminationToken):
                        return False
                if sorted(t.tag for t in its) != sorted(common):
                    return False
            return True
    except Prune:
        return True


# ---------------------------------------------------------------- obligations

IMPORTS = "from harness.C06 import *"


def _perm_pre(n, q):
    """q[0..2] first n entries are a permutation of 0..n-1, the rest pinned to 0."""
    pre = []
    for j in range(3):
        pre.append(f"(({n} > {j} and 0 <= {q[j]} < {n}) or ({n} <= {j} and {q[j]} == 0))")
    pre.append(f"({n} < 2 or {q[0]} != {q[1]})")
    pre.append(f"({n} < 3 or ({q[0]} != {q[2]} and {q[1]} != {q[2]}))")
    return pre


def specs(tier: str):
    quick = tier == "quick"
    out = []
    # --- loop output, small counts, full permutations
    for method_all in (False, True):
        m = "all" if method_all else "last"
        # one instance
        q = ["q0", "q1", "q2"]
        out.append(
            Spec(
                name=f"loop_output_{m}_1inst",
                group="loop output: one output per instance, last value / all values in iteration order",
                source=mk_source(
                    IMPORTS,
                    "n: int, q0: int, q1: int, q2: int, v0: int, v1: int, v2: int, mp: int",
                    ["0 <= n <= 3", "0 <= mp <= n"] + _perm_pre("n", q),
                    f"prop_loop_output_small({method_all}, [n], [[q0, q1, q2]], [[v0, v1, v2]], [mp], [], ['0'])",
                ),
                cond=600,
                path=60,
                bound="1 loop instance, iteration count n symbolic 0..3, arrival permutation of the n iteration tokens symbolic, marker position symbolic 0..n, values unconstrained",
                symbolic="n, 3 permutation entries, 3 values, marker position",
                targets=T_OUT,
            )
        )
        # two instances interleaved (prefix strings where lexicographic/numeric differ)
        for n0 in (0, 1, 2) if quick else (0, 1, 2, 3):
            K = 3 if quick else 5
            ms = [f"m{i}" for i in range(K)]
            out.append(
                Spec(
                    name=f"loop_output_{m}_2inst_n{n0}",
                    group="loop output: one output per instance, last value / all values in iteration order",
                    source=mk_source(
                        IMPORTS,
                        "n: int, q0: int, q1: int, q2: int, v0: int, v1: int, v2: int, mp: int, mp0: int, " + ", ".join(f"{x}: int" for x in ms),
                        ["0 <= n <= 2", "0 <= mp <= n", f"0 <= mp0 <= {n0}"] + _perm_pre("n", q) + [f"0 <= {x} <= 1" for x in ms],
                        f"prop_loop_output_small({method_all}, [{n0}, n], [[{', '.join(str(i) for i in range(3))}], [q0, q1, q2]], [[5, 6, 7], [v0, v1, v2]], [mp0, mp], [{', '.join(ms)}], ['0.1', '0.10'])",
                    ),
                    cond=900 if quick else 3000,
                    path=60,
                    bound=f"2 loop instances '0.1' ({n0} iterations, in order, marker position symbolic) and '0.10' (n symbolic 0..2, symbolic permutation, symbolic marker position), first {K} merge choices between the two instance streams symbolic",
                    symbolic=f"n, permutation, values, 2 marker positions, {K} merge choices",
                    targets=T_OUT,
                )
            )
        # >= 10 iterations
        for n in (10, 11) if quick else (10, 11, 12, 15):
            out.append(
                Spec(
                    name=f"loop_output_{m}_long_n{n}",
                    group="loop output with 10 or more iterations, out-of-order arrival",
                    source=mk_source(
                        IMPORTS,
                        "i: int, j: int, ms: int, seed: int",
                        [f"0 <= i < j < {n}", "0 <= ms <= 2", "0 <= seed <= 3"],
                        f"prop_loop_output_long({method_all}, {n}, i, j, ms, seed)",
                    ),
                    cond=900 if quick else 3000,
                    path=60,
                    bound=f"{n} iterations; arrival = iteration order with one symbolic transposition (i<j), marker first / in the middle / last (symbolic)",
                    symbolic="transposition (i, j), marker position selector, value seed",
                    targets=T_OUT,
                )
            )
    # --- loop combinator step
    K = 4 if quick else 6
    ms = [f"m{i}" for i in range(K)]
    out.append(
        Spec(
            name=f"loop_combinator_1inst_K{K}",
            group="loop combinator: k-th product of an instance is retagged <prefix>.k; the step waits for every iteration termination",
            source=mk_source(
                IMPORTS,
                ", ".join(f"{x}: int" for x in ["r0"] + ms),
                ["1 <= r0 <= 3"] + [f"0 <= {x} <= 1" for x in ms],
                f"prop_loop_combinator([r0], ['0'], [{', '.join(ms)}], 1000)",
            ),
            cond=900 if quick else 3000,
            path=60,
            bound=f"instance '0', 1..3 iterations (symbolic), 2 loop variables; the first {K} deliveries among the 2 per-port loop-back streams are symbolic choices",
            symbolic=f"iteration count, {K} merge choices",
            targets=T_COMB,
        )
    )
    K = 3 if quick else 5
    ms = [f"m{i}" for i in range(K)]
    for r0 in (1, 2, 3):
        for f in (0, 1, 2, 3):
            out.append(
                Spec(
                    name=f"loop_combinator_2inst_r{r0}_f{f}_K{K}",
                    group="loop combinator: k-th product of an instance is retagged <prefix>.k; the step waits for every iteration termination",
                    source=mk_source(
                        IMPORTS,
                        ", ".join(f"{x}: int" for x in ["r1"] + ms[1:]),
                        ["1 <= r1 <= 3"] + [f"0 <= {x} <= 3" for x in ms[1:]],
                        f"prop_loop_combinator([{r0}, r1], ['0.1', '0.10'], [{f}, {', '.join(ms[1:])}], 1000)",
                    ),
                    cond=900 if quick else 3000,
                    path=60,
                    bound=f"instances '0.1' ({r0} iterations, partition) and '0.10' (1..3 iterations, symbolic), 2 loop variables; first delivery = stream {f} (partition), next {K - 1} deliveries among the 4 (instance, port) loop-back streams symbolic",
                    symbolic=f"iteration count, {K - 1} merge choices",
                    targets=T_COMB,
                )
            )
    # --- loop termination combinator
    for tags in ([["0.1", "0.10"], ["0.10", "0.1"]], [["0"], ["0"]], [["0.1", "0.2"], ["0.2"]]):
        K = 4
        ms = [f"m{i}" for i in range(K)]
        out.append(
            Spec(
                name=f"loop_termination_{'_'.join(t.replace('.', '') for t in tags[0] + tags[1])}",
                group="loop termination combinator: one IterationTerminationToken per completed instance",
                source=mk_source(IMPORTS, ", ".join(f"{x}: int" for x in ms), [f"0 <= {x} <= 1" for x in ms], f"prop_loop_termination({tags!r}, [{', '.join(ms)}])"),
                cond=300,
                path=60,
                bound=f"loop outputs with tags {tags} on two ports, first {K} merge choices symbolic",
                symbolic=f"{K} merge choices",
                targets=T_TERM,
            )
        )
    # --- executor level: the whole translator-wired loop graph run by StreamFlowExecutor (harness/C06_graph.py)
    from harness.C06_graph import graph_specs

    out += graph_specs(tier)
    return out
