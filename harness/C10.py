"""C10 — the scheduler never over-allocates a location.  (C11/C12 reuse this generator.)"""

from __future__ import annotations

import itertools

from harness.sched_lib import CANON, OPS, ST_NAMES
from lib.runner import Spec, mk_source

LEVEL = "other"
ORACLE = "capacity"
PROP = "C10"
EXPLANATION = (
    "The real DefaultScheduler runs on a deterministic loop against stub connectors. Every obligation fixes a topology "
    "and, per job, a canonical prefix that drives the job to a designated status; the following L operations are solver "
    "variables (which job, which of schedule/RUNNING/COMPLETED/FAILED/CANCELLED/RECOVERY/ROLLBACK), and so are all capacities, "
    "requirements and measured storage usages (exact integers). After every operation, at quiescence, the harness sums "
    "the requirements of the jobs the scheduler reports FIREABLE/RUNNING on each location (each stacked level) and compares "
    "with the capacity (or the slot count)."
)
ASSUMPTIONS = [
    "stub connectors (get_available_locations returns fixed AvailableLocation objects), StubDeploymentManager, stub HardwareRequirement.eval, DetLoop; retry_interval=None (no polling timer)",
    "remotepath.get_storage_usages is replaced by a stub returning a symbolic measured usage; sizes are whole MiB so that bytes/2**20 is exact (no IEEE rounding: see C14 for the float envelope)",
    "the float zero defaults of Hardware() (cores=0.0, memory=0.0, Storage('/', 0.0)) are replaced by integer 0 so that all ledger arithmetic is exact integer arithmetic",
    "amounts are exact integers 0..64; each job requires one storage (in the *_2entries obligations: two storage entries, outdir and tmpdir) on the location's single mount point '/'",
    "except in the *_overuse obligations (where usage may exceed the declaration but the volume can hold everything), the measured usage of a job's directories never exceeds its declared storage requirement (otherwise the ledger can exceed the capacity and Hardware.__sub__ raises 'negative size' inside _is_valid: noted in DESIGN.md as an observation outside C10-C12)",
    "callers' lifecycle (what ExecuteStep._run_job, ScheduleStep and RollbackFailureManager do): schedule only for a job that is unallocated or in ROLLBACK; RUNNING only from FIREABLE (or repeated while RUNNING); "
    "COMPLETED/FAILED/CANCELLED from FIREABLE, RUNNING, RECOVERY or another terminal status (duplicates and out-of-order terminal notifications included); RECOVERY from FIREABLE, RUNNING or FAILED; ROLLBACK from any allocated status (the failure manager only rolls back jobs that are not executing, but a direct or repeated ROLLBACK is accepted by the scheduler API); no notification for a job whose schedule request is still waiting",
    "topologies: one location; two locations of one deployment (target.locations 1 or 2); slot-only location; a stacked wrapper location whose '/' is a bind of the base location's '/', with jobs targeting the wrapper and jobs targeting the base directly; a three-level stack (wrapper over wrapper over base); two deployments as two declared targets",
    "at most 3 jobs and (prefix + L) operations per history; default DataLocalityPolicy",
]
T = (
    "streamflow.scheduling.scheduler.DefaultScheduler.schedule",
    "streamflow.scheduling.scheduler.DefaultScheduler._process_target",
    "streamflow.scheduling.scheduler.DefaultScheduler._is_valid",
    "streamflow.scheduling.scheduler.DefaultScheduler._allocate_job",
    "streamflow.scheduling.scheduler.DefaultScheduler._free_resources",
    "streamflow.scheduling.scheduler.DefaultScheduler._resolve_hardware_requirement",
    "streamflow.scheduling.scheduler.DefaultScheduler._get_locations",
    "streamflow.scheduling.scheduler.DefaultScheduler._get_running_jobs",
    "streamflow.scheduling.scheduler.DefaultScheduler.notify_status",
    "streamflow.scheduling.policy.data_locality.DataLocalityPolicy.get_location",
    "streamflow.core.scheduling.Hardware.__add__",
    "streamflow.core.scheduling.Hardware.__sub__",
    "streamflow.core.scheduling.Hardware.satisfies",
    "streamflow.core.scheduling.Hardware.normalized",
    "streamflow.data.utils.bind_mount_point",
    "streamflow.data.utils.get_mount_point",
)

IMPORTS = "from harness.sched_lib import run_history"


def _spec(prop, oracle, topo, nloc, prefix, L, bindings, hi=64, cond=900, fix_first=None, dims="cmd", usage_sym=True, tagname="", two_entries=False, overuse=False):
    """dims: which of cores/memory/disk are symbolic (the others are 0 for capacity and requirement)."""
    nj = len(prefix)
    params, pre = [], []
    caps_expr = []
    if topo == "slots":
        params.append("slots: int")
        pre.append("1 <= slots <= 2")
        caps_expr = "[]"
        req_expr = "[" + ", ".join("(0, 0, 0)" for _ in range(nj)) + "]"
        usage_sym = False
    else:
        def triple(prefix_, idx):
            names = []
            for d in "cmd":
                if d in dims:
                    n = f"{prefix_}{d}{idx}"
                    params.append(f"{n}: int")
                    pre.append(f"0 <= {n} <= {hi}")
                    names.append(n)
                else:
                    names.append("0")
            return "(" + ", ".join(names) + ")"

        caps_expr = "[" + ", ".join(triple("c", l) for l in range(nloc)) + "]"
        req_expr = "[" + ", ".join(triple("r", j) for j in range(nj)) + "]"
        usage_sym = usage_sym and "d" in dims
        if usage_sym:
            params.append("usage: int")
            pre.append(f"0 <= usage <= {hi}")
            if overuse:
                # a job may use MORE storage than it declared, as long as the volume can hold it
                # (every release adds the measured usage to the ledger; at most 4 releases per history)
                pre.append("4 * usage + " + " + ".join(f"rd{j}" for j in range(nj)) + " <= cd0")
            else:
                # jobs stay within their declared storage requirement
                pre += [f"usage <= rd{j}" for j in range(nj)]
    split_expr = ""
    if two_entries:
        names = [f"rt{j}" for j in range(nj)]
        params += [f"{n}: int" for n in names]
        pre += [f"0 <= {n} <= {hi}" for n in names]
        split_expr = ", split=[" + ", ".join(names) + "]"
        usage_sym = False
    ops = [f"o{i}" for i in range(L)]
    sym_ops = ops if fix_first is None else ops[1:]
    params += [f"{o}: int" for o in sym_ops]
    ncodes = nj * len(OPS)
    pre += [f"0 <= {o} < {ncodes}" for o in sym_ops]
    ops_expr = "[" + ", ".join(([str(fix_first)] if fix_first is not None else []) + sym_ops) + "]"
    extra = ""
    if topo == "slots":
        extra = ", slots=slots"
    elif usage_sym:
        extra = ", usage=usage"
    if two_entries:
        extra = ""
    call = f"run_history({topo!r}, {caps_expr}, {req_expr}, {bindings!r}, {list(prefix)!r}, {ops_expr}, {oracle!r}{extra}{split_expr})"
    pname = "".join(ST_NAMES[s][:2] for s in prefix)
    return Spec(
        name=f"{topo}_{pname}_L{L}_{dims}" + ("" if fix_first is None else f"_f{fix_first}") + tagname + ("_2entries" if two_entries else "") + ("_overuse" if overuse else ""),
        group=f"{prop} on topology '{topo}'",
        source=mk_source(IMPORTS, ", ".join(params), pre, call),
        cond=cond,
        path=90,
        bound=f"topology {topo}; {nj} jobs with targets {bindings}; canonical prefixes to statuses {[ST_NAMES[s] for s in prefix]}; then {L} operations with symbolic codes over {nj} jobs x {OPS}"
        + ("" if fix_first is None else f" (partition: first code {fix_first})")
        + ("; the measured usage may EXCEED the declared requirement (4*usage + sum of requirements <= capacity)" if overuse else "")
        + ("; every job declares TWO storage entries (outdir, tmpdir) on the same mount point, both sizes symbolic" if two_entries else "")
        + (f"; symbolic dimensions {dims} (c=cores, m=memory, d=disk; the others 0){', measured usage symbolic' if usage_sym else ''}, ints 0..{hi}" if topo != "slots" else "; slots symbolic 1..2"),
        symbolic=f"{len(params)} ints",
        targets=T,
    )


def gen(prop, oracle, tier):
    from harness.sched_lib import COMPLETED, FAILED, FIREABLE, NONE, RECOVERY, ROLLBACK, RUNNING

    quick = tier == "quick"
    out = []
    big = 900 if quick else 3000
    sts = [NONE, FIREABLE, RUNNING, COMPLETED, ROLLBACK] if quick else [NONE, FIREABLE, RUNNING, COMPLETED, RECOVERY, ROLLBACK]
    pairs = [(a, b) for a in sts for b in sts if a <= b]
    ncodes2 = 2 * len(OPS)
    two = [("d",), ("d",)]
    # (1) one step from every pair of designated statuses, all three dimensions symbolic
    for pr in pairs:
        out.append(_spec(prop, oracle, "one", 1, pr, 1, two, dims="cd" if quick else "cmd", cond=big))
    # (1b) two storage entries per job on one mount point (CWL outdir + tmpdir on one volume)
    for pr in [(NONE, NONE), (RUNNING, NONE), (FIREABLE, NONE), (RUNNING, RUNNING)] + ([] if quick else [(COMPLETED, NONE), (ROLLBACK, NONE), (RUNNING, FIREABLE)]):
        out.append(_spec(prop, oracle, "one", 1, pr, 1 if quick else 2, two, dims="d", cond=big, two_entries=True))
    # (1c) jobs that use more storage than they declared (ledger stays within the capacity)
    for pr in [(RUNNING, NONE), (RUNNING, RUNNING), (COMPLETED, RUNNING)] + ([] if quick else [(FIREABLE, RUNNING), (ROLLBACK, RUNNING), (RECOVERY, RUNNING)]):
        out.append(_spec(prop, oracle, "one", 1, pr, 1 if quick else 2, two, dims="d", cond=big, overuse=True))
    # (2) two steps
    sel = [(NONE, NONE), (FIREABLE, NONE), (RUNNING, NONE), (RUNNING, RUNNING), (RUNNING, ROLLBACK), (COMPLETED, RUNNING)]
    for pr in sel[:4] if quick else pairs:
        out.append(_spec(prop, oracle, "one", 1, pr, 2, two, dims="c", cond=big))
        if not quick and pr in sel:
            out.append(_spec(prop, oracle, "one", 1, pr, 2, two, dims="d", cond=big))
    if not quick:
        for f in range(ncodes2):  # three symbolic operations from the empty state, partitioned on the first
            out.append(_spec(prop, oracle, "one", 1, (NONE, NONE), 3, two, dims="c", cond=big, fix_first=f))
    # (3) three jobs, one step (and two steps in thorough)
    tri = [(RUNNING, RUNNING, NONE), (RUNNING, FIREABLE, NONE), (ROLLBACK, RUNNING, NONE), (COMPLETED, RUNNING, NONE), (RUNNING, NONE, NONE)]
    for pr in tri:
        out.append(_spec(prop, oracle, "one", 1, pr, 1, [("d",)] * 3, dims="c", cond=big))
        if not quick:
            out.append(_spec(prop, oracle, "one", 1, pr, 1, [("d",)] * 3, dims="cmd", cond=big))
    # (4) other topologies
    heavy = [(RUNNING, NONE), (FIREABLE, NONE), (RUNNING, RUNNING), (ROLLBACK, NONE), (COMPLETED, NONE), (NONE, NONE), (NONE, RUNNING), (RUNNING, FIREABLE)]
    for pr in heavy[:4] if quick else heavy:
        for Lx in (1,) if (quick or pr != heavy[0]) else (1, 2):
            d = "c" if (Lx == 2 or (quick and NONE not in pr)) else "cd"
            out.append(_spec(prop, oracle, "two", 2, pr, Lx, two, dims=d, cond=big, usage_sym=False))
            out.append(_spec(prop, oracle, "two_multi", 2, pr, Lx, two, dims=d, cond=big, usage_sym=False))
            out.append(_spec(prop, oracle, "slots", 1, pr, 2, two, cond=big))
            out.append(_spec(prop, oracle, "stacked", 2, pr, Lx, [("w",), ("b",)], dims=d, cond=big, usage_sym=False, tagname="_wb"))
            out.append(_spec(prop, oracle, "stacked", 2, pr, Lx, [("b",), ("w",)], dims=d, cond=big, usage_sym=False, tagname="_bw"))
            out.append(_spec(prop, oracle, "stacked", 2, pr, Lx, [("w",), ("w",)], dims=d, cond=big, usage_sym=False, tagname="_ww"))
            out.append(_spec(prop, oracle, "two_deployments", 2, pr, Lx, [("x", "y"), ("x", "y")], dims=d, cond=big, usage_sym=False))
            if Lx == 1 and pr in (heavy[:2] if quick else heavy[:4]):
                out.append(_spec(prop, oracle, "stacked3", 3, pr, Lx, [("v",), ("v",)], dims="c", cond=big, usage_sym=False, tagname="_vv"))
                out.append(_spec(prop, oracle, "stacked3", 3, pr, Lx, [("v",), ("b",)], dims="c", cond=big, usage_sym=False, tagname="_vb"))
    return out


def specs(tier: str):
    return gen(PROP, ORACLE, tier)
