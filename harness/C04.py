"""C04 — every well-formed workflow terminates, and failures terminate every step.  (C05/C07 reuse the generator.)"""

from __future__ import annotations

from lib.runner import Spec, mk_source

LEVEL = "other"
PROP = "C04"
ORACLE = "terminate"
EXPLANATION = (
    "Small workflow graphs assembled from the real step classes are run by the real StreamFlowExecutor on a deterministic "
    "event loop whose first K scheduling decisions (which ready callback runs next) are solver variables; input values, list "
    "lengths, the failing step and the completion order of jobs are solver variables or enumerated partitions. Oracle: the "
    "executor's run() finishes (a quiescent loop with run() pending is a deadlock = violation), returns the expected outputs iff no "
    "fault was injected and raises WorkflowExecutionException otherwise; afterwards every step is terminated with a terminal "
    "status, every output port ends with a TerminationToken and no task is left pending."
)
ASSUMPTIONS = [
    "StubDatabase, DetLoop (bounded interleaving exploration through the solver: each path is one schedule; schedules that differ only after the K-th choice point are not distinguished), utils.random_name replaced by a counter",
    "graphs: 2-transformer chain; scatter->transformer->gather; two scattered inputs joined by a dot-product combinator, summed and gathered; conditional step with a skip port; two independent branches with two workflow outputs; a two-input transformer fed with the same tags in different orders; a scattered input joined with two plain (broadcast) inputs; scatter->ScheduleStep->ExecuteStep->gather on the real DefaultScheduler with a slot-limited stub connector (ScheduleStep._set_job_directories and the data manager are stubbed: no file system)",
    "at most one injected fault (a transformer raising, or the command of job .0 returning FAILED); DummyFailureManager-like failure manager (recover re-raises); loops are covered at step level by C06, not here; <= 3 list elements",
    "execstep_* obligations: the real ExecuteStep alone with pre-scheduled jobs, a stub command and a stub scheduler whose notify_status takes a solver-chosen number of scheduling steps (lock contention / storage measurement in the real one)",
    "job commands complete only when the harness releases them, in a solver-chosen order; once an injected fault has fired, jobs still running are never released (long-running jobs): the engine has to cancel them",
]
T = (
    "streamflow.workflow.executor.StreamFlowExecutor.run",
    "streamflow.workflow.executor.StreamFlowExecutor._wait_outputs",
    "streamflow.workflow.executor.StreamFlowExecutor._handle_exception",
    "streamflow.workflow.executor.StreamFlowExecutor._cancel",
    "streamflow.workflow.executor.StreamFlowExecutor.close",
    "streamflow.workflow.step.BaseStep.terminate",
    "streamflow.workflow.step.BaseStep._get_inputs",
    "streamflow.workflow.step._reduce_statuses",
    "streamflow.workflow.step.Transformer.run",
    "streamflow.workflow.step.ScatterStep.run",
    "streamflow.workflow.step.GatherStep.run",
    "streamflow.workflow.step.CombinatorStep.run",
    "streamflow.workflow.step.ConditionalStep.run",
    "streamflow.workflow.step.ScheduleStep.run",
    "streamflow.workflow.step.ScheduleStep._schedule",
    "streamflow.workflow.step.ExecuteStep.run",
    "streamflow.workflow.step.ExecuteStep._run_job",
    "streamflow.workflow.step.ExecuteStep._execute_command",
    "streamflow.core.recovery.recoverable",
    "streamflow.scheduling.scheduler.DefaultScheduler.schedule",
    "streamflow.scheduling.scheduler.DefaultScheduler.notify_status",
)
IMPORTS = "from harness.exec_lib import *"


def _spec(prop, oracle, gname, build_expr, extra_params, extra_pre, K, fault, cond, note, first=None):
    cs = [f"c{i}" for i in range(K)]
    sym = cs if first is None else cs[1:]
    params = extra_params + [f"{c}: int" for c in sym]
    pre = extra_pre + [f"0 <= {c} <= 5" for c in sym]
    call = f"run_graph(lambda e: {build_expr}, [{', '.join(([str(first)] if first is not None else []) + sym)}], {fault}, {oracle!r})"
    return Spec(
        name=f"{gname}_K{K}" + ("" if first is None else f"_f{first}") + ("" if fault < 0 else f"_fault{fault}"),
        group=f"{prop}: graph {gname.split('_')[0]}",
        source=mk_source(IMPORTS, ", ".join(params), pre, call),
        cond=cond,
        path=120,
        bound=f"graph {gname} ({note}); first {K} scheduling choices symbolic (each among up to 6 ready callbacks), FIFO afterwards" + ("" if first is None else f" (partition: first choice = {first})") + "; " + ("no fault" if fault < 0 else f"fault injected in faultable unit #{fault}"),
        symbolic=f"{len(params)} variables",
        targets=T,
    )


def gen(prop, oracle, tier):
    quick = tier == "quick"
    K = 2 if quick else 3
    big = 900 if quick else 3000
    faults_ok = oracle == "terminate"
    out = []

    def add(gname, build, params, pre, nfault, note, Kx=None):
        for f in ([-1] + list(range(nfault))) if faults_ok else [-1]:
            kk = Kx or K
            if quick or kk <= 3:
                out.append(_spec(prop, oracle, gname, build, params, pre, kk, f, big, note))
            else:
                for first in range(6):  # partition on the first scheduling choice
                    out.append(_spec(prop, oracle, gname, build, params, pre, kk, f, big, note, first=first))

    add("chain", "g_chain(e, [v0])", ["v0: int"], [], 2, "in -> +1 -> *2 -> out", Kx=3 if quick else 4)
    for n in (0, 1, 2) if quick else (0, 1, 2, 3):
        add(f"scatter_n{n}", f"g_scatter(e, [v0, v1, v2], {n})", ["v0: int", "v1: int", "v2: int"], [], 1, f"scatter a list of {n} -> +10 -> gather")
    for n in (1, 2):
        add(f"dot_n{n}", f"g_dot(e, [v0, v1, v2, v3], {n})", ["v0: int", "v1: int", "v2: int", "v3: int"], [], 1, f"two scattered lists of {n}, dot product, sum, gather")
    add("cond", "g_cond(e, [v0])", ["v0: int"], [], 1, "conditional (v>0) with skip port", Kx=3 if quick else 4)
    add("twoout", "g_two_outputs(e, [v0, v1])", ["v0: int", "v1: int"], [], 3, "two independent branches, two workflow outputs")
    for n, slots in ((1, 1), (2, 1), (2, 2)) if quick else ((1, 1), (2, 1), (2, 2), (3, 1), (3, 2)):
        add(
            f"exec_n{n}_s{slots}",
            f"g_exec(e, [v0, v1, v2], {n}, {slots}, [j0, j1])",
            ["v0: int", "v1: int", "v2: int", "j0: int", "j1: int"],
            ["0 <= j0 <= 2", "0 <= j1 <= 2"],
            1,
            f"scatter {n} -> schedule -> execute on a location with {slots} slot(s) -> gather; job completion order symbolic",
            Kx=2 if quick else 3,
        )
    # commands that complete / fail immediately (no harness gate): the failure of job .0 can hit
    # siblings that have not started yet or that are inside their final scheduler notification
    for n, slots in ((2, 2), (3, 2)) if quick else ((2, 2), (3, 2), (3, 3)):
        add(
            f"execnow_n{n}_s{slots}",
            f"g_exec(e, [v0, v1, v2], {n}, {slots}, [], gated=False)",
            ["v0: int", "v1: int", "v2: int"],
            [],
            1,
            f"scatter {n} -> schedule -> execute on a location with {slots} slots -> gather; commands finish or fail IMMEDIATELY",
            Kx=2 if quick else 3,
        )
    # hardware location: notifications contend for the scheduler lock while a release is being measured
    for n in () if quick else (2, 3):
        add(
            f"exechw_n{n}",
            f"g_exec(e, [v0, v1, v2], {n}, 0, [], gated=False, hw=True, delay=d)",
            ["v0: int", "v1: int", "v2: int", "d: int"],
            ["0 <= d <= 16"],
            1,
            f"scatter {n} -> schedule -> execute on a location with 8 cores (1 core per job) -> gather; commands finish or fail immediately; measuring the released storage takes d (symbolic, 0..16) scheduling steps inside the scheduler's critical section",
            Kx=1 if quick else 2,
        )
    # two-input transformer whose ports deliver the same tags in different orders
    add(
        "join2_n3",
        "g_join2(e, [v0, v1, v2, v3, v4, v5], 3, [q0, q1, q2])",
        [f"v{i}: int" for i in range(6)] + ["q0: int", "q1: int", "q2: int"],
        ["0 <= q0 <= 2", "0 <= q1 <= 2", "0 <= q2 <= 2"],
        1,
        "two-input transformer; port a delivers tags 0.0,0.1,0.2, port b the same tags in a solver-chosen order; gather",
        Kx=1 if quick else 2,
    )
    # a broadcast input that reaches the combinator after all the scattered elements
    add(
        "bcastlate_n2",
        "g_bcast_late(e, [v0, v1, v2, v3], 2)",
        [f"v{i}: int" for i in range(4)],
        [],
        1,
        "2 elements tagged 0.i joined (dot product) with a non-scattered input that arrives at the combinator late (through two identity transformers): one arrival completes several combinations",
        Kx=1 if quick else 2,
    )
    # depth-2 gather (flat cross product) whose elements complete in a solver-chosen order
    add(
        "gather2_2x2",
        "g_gather2(e, [10, 20, 30, 40], [q0, q1, q2, 0])",
        [f"q{i}: int" for i in range(3)],
        ["0 <= q0 <= 3", "0 <= q1 <= 3", "0 <= q2 <= 3", "q0 != q1", "q0 != q2", "q1 != q2"],
        1,
        "elements tagged 0.i.j (2 x 2, flat cross product) reach a transformer and a depth-2 gather in a solver-chosen completion order (all 24 orders; concrete distinct values)",
        Kx=1 if quick else 2,
    )
    # a scattered input joined with two plain inputs (broadcast)
    for n in (1, 2):
        add(
            f"bcast_n{n}",
            f"g_bcast(e, [v0, v1, v2, v3, v4], {n})",
            [f"v{i}: int" for i in range(5)],
            [],
            1,
            f"scatter a list of {n}, dot product with two non-scattered inputs, sum, gather",
            Kx=2 if quick else 3,
        )
    if oracle == "terminate":
        # the real ExecuteStep alone, against a scheduler whose notifications take a solver-chosen time
        for n in (3,) if quick else (2, 3, 4):
            for fj in range(n if not quick else 1):
                out.append(
                    Spec(
                        name=f"execstep_n{n}_fail{fj}",
                        group=f"{prop}: ExecuteStep terminates after a job failure whatever the duration of the scheduler notifications",
                        source=mk_source(IMPORTS, "dfail: int, dnot: int, dnot0: int", ["0 <= dfail <= 8", "0 <= dnot <= 8", "0 <= dnot0 <= 4"], f"prop_execute_step({n}, dfail, dnot, dnot0, {fj})"),
                        cond=big,
                        path=120,
                        bound=f"{n} concurrent jobs: job {fj} fails after dfail (0..8) scheduling steps, the next job completes at once and its COMPLETED notification takes dnot (0..8) steps, the FAILED notification dnot0 (0..4) steps, the other jobs are long-running (60 steps); stub scheduler (notifications only), stub command",
                        symbolic="3 durations",
                        targets=("streamflow.workflow.step.ExecuteStep.run", "streamflow.workflow.step.ExecuteStep._run_job", "streamflow.workflow.step.ExecuteStep._execute_command", "streamflow.workflow.step.ExecuteStep._check_inputs", "streamflow.core.recovery.recoverable", "streamflow.workflow.step.BaseStep.terminate"),
                    )
                )
    return out


def specs(tier: str):
    return gen(PROP, ORACLE, tier)
