"""C23 — tar-stream copies are exact or fail, however the stream is chunked.

Real code executed symbolically (streamflow/deployment/aiotarstream.py, stream.py,
connector/base.py): TellableStreamWrapper.read/tell/write, SeekableStreamReaderWrapper.seek,
FileStreamReaderWrapper.read, copyfileobj/write, AioTarInfo.fromtarfile/_proc_*,
AioTarStream.next/extract/extractfile/makefile/addfile/_close, extract_tar_stream.

Structure (one defect must not mask the rest, so every lemma / wrapper has its own obligations):
  L1 chunk normalisation  (read / tell / forward seek / backward seek / member reader)
  L2 copyfileobj copies exactly `length` bytes for every chunking
  L3 truncation at wrapper level: the copy / the seek must raise, never return short, never spin
  L4 tar level: extraction of concrete archives written by CPython's tarfile (USTAR, GNU, PAX),
     chunk size and truncation point / corrupted header byte symbolic
  L5 writer: archives written by AioTarStream are read back identically by CPython's tarfile
"""

from __future__ import annotations

import io
import posixpath
import tarfile

from lib.runner import Spec, mk_source

LEVEL = "other"
EXPLANATION = (
    "The raw byte stream is a stub whose read(n) returns between 1 and n bytes: the chunk sizes (and, in the truncation "
    "lemmas, the position of the premature EOF) are solver variables, so 'for every chunking' is a quantifier the solver "
    "discharges; read sizes, seek offsets, copy length and buffer size are solver variables too. The data bytes are concrete "
    "and pairwise distinct, so any lost, duplicated or reordered byte is visible. L1-L3 are decided on the stream wrappers; "
    "L4 runs the real tar reader (AioTarStream on top of the same wrappers, driven by the real extract_tar_stream and by "
    "AioTarStream.extract) on archives written by CPython's tarfile with the chunk size, the truncation point (windows around "
    "every header/data/padding/member boundary) and a corrupted header byte owned by the solver; L5 runs the real writer "
    "(AioTarStream.addfile/_close) with symbolic member size, copy buffer size and source chunking and reads the result back "
    "with CPython's tarfile."
)
ASSUMPTIONS = [
    "wrapper level only: the raw transport is StubStream (read(n) returns 1..n bytes chosen by the solver, b'' for ever at EOF, as "
    "asyncio.StreamReader.read does); compressed streams (gz/bz2/xz wrappers), GNU tar / busybox tar binaries, the SSH/subprocess "
    "transports and the real file system are outside the claim; 'standard tar tools' is represented by CPython's tarfile (USTAR, GNU "
    "and PAX formats, names longer than 100 bytes included)",
    "L1-L3: 48 concrete pairwise distinct data bytes; the first 2..6 raw reads have solver-chosen lengths (1..3 each, 1..2 for the member "
    "reader), later reads return everything asked; read sizes / gaps / lengths / buffer sizes up to 6..12 (see each obligation's bound)",
    "L4: concrete archives (directories and regular files of 0, 10, 37, 512, 513, 700, 1500 bytes with position-dependent content; no links, "
    "devices or sparse members) read with a fixed chunk size c (every raw read returns min(asked, c) bytes) selected by the solver from 1..16, "
    "511, 512, 513, or with chunk sizes cycling through solver-chosen values of {1, 3, 16, 100}; truncation and corruption are decided for "
    "the chunk sizes named in the obligation (by L1 the layers above the wrappers see a chunking-independent stream)",
    "the local file system is replaced by an in-memory model bound to the names `os` and `bltn_open`/`open` inside "
    "streamflow.deployment.aiotarstream and streamflow.deployment.connector.base (path algebra = posixpath; makedirs/mkdir/chmod/utime "
    "record into dictionaries; geteuid() != 0 so no chown); a file counts as produced as soon as it is opened for writing, so partial "
    "files are visible to the oracle",
    "truncation: the stream ends for ever at the solver-chosen cut point, taken from the boundary classes of every member (header start, "
    "+1, middle, last byte; data start, +1, middle, last byte, end; first and last padding byte; member boundary; end-of-archive marker "
    "blocks), not from every byte offset; a copy that performs more than 64 reads at EOF counts as spinning (StubLivelock). A truncated "
    "stream must make the copy raise tarfile.TarError / EOFError / OSError / WorkflowExecutionException whenever a member would otherwise "
    "be missing or partial - also when the cut falls exactly on a member boundary, where CPython's own tarfile would accept the shorter "
    "archive; when only the end-of-archive marker or the record padding is cut, either outcome is accepted as long as every member is complete",
    "corruption: one byte of a 512-byte header block is xor-ed with 0x01/0x80 (0x20/0xFF in the thorough tier) - the header is the only "
    "part of a tar stream protected by a checksum; changes to file data or to pax / GNU long-name payload blocks are undetectable by the "
    "tar format and outside the claim",
    "L5: members are added with AioTarStream.addfile from in-memory sources (gettarinfo/add, which stat the file system, are not executed); "
    "copyfileobj(length=None) (delegates to the synchronous shutil.copyfileobj and is never called that way) is outside the claim",
    "DetLoop replaces the selector event loop; no coroutine of the code under test suspends on the stubs, so scheduling is irrelevant",
]

T_TELL = ("streamflow.deployment.aiotarstream.TellableStreamWrapper.read", "streamflow.deployment.aiotarstream.TellableStreamWrapper.tell", "streamflow.deployment.stream.BaseStreamWrapper.read")
T_SEEK = ("streamflow.deployment.aiotarstream.SeekableStreamReaderWrapper.seek",) + T_TELL
T_FILE = ("streamflow.deployment.aiotarstream.FileStreamReaderWrapper.__init__", "streamflow.deployment.aiotarstream.FileStreamReaderWrapper.read") + T_SEEK
T_COPY = ("streamflow.deployment.aiotarstream.copyfileobj", "streamflow.deployment.aiotarstream.write", "streamflow.deployment.aiotarstream.TellableStreamWrapper.write") + T_TELL
T_TAR = (
    "streamflow.deployment.aiotarstream.AioTarStream.open",
    "streamflow.deployment.aiotarstream.AioTarStream.__aenter__",
    "streamflow.deployment.aiotarstream.AioTarStream.__anext__",
    "streamflow.deployment.aiotarstream.AioTarStream.next",
    "streamflow.deployment.aiotarstream.AioTarStream.extract",
    "streamflow.deployment.aiotarstream.AioTarStream.extractfile",
    "streamflow.deployment.aiotarstream.AioTarStream._extract_member",
    "streamflow.deployment.aiotarstream.AioTarStream.makefile",
    "streamflow.deployment.aiotarstream.AioTarInfo.fromtarfile",
    "streamflow.deployment.aiotarstream.AioTarInfo._proc_member",
    "streamflow.deployment.aiotarstream.AioTarInfo._proc_builtin",
    "streamflow.deployment.aiotarstream.AioTarInfo._proc_gnulong",
    "streamflow.deployment.aiotarstream.AioTarInfo._proc_pax",
    "streamflow.deployment.connector.base.extract_tar_stream",
) + T_FILE + T_COPY
T_WRITE = (
    "streamflow.deployment.aiotarstream.AioTarStream.addfile",
    "streamflow.deployment.aiotarstream.AioTarStream._close",
    "streamflow.deployment.aiotarstream.AioTarStream.close",
) + T_COPY

EOF_BUDGET = 64
DATA = bytes(range(1, 49))  # 48 pairwise distinct bytes


class StubLivelock(Exception):
    """The code under test keeps reading a stream that is at EOF."""


def _allowed():
    from streamflow.core.exception import WorkflowExecutionException

    return (tarfile.TarError, EOFError, OSError, WorkflowExecutionException)


def _stream_cls():
    from streamflow.core.data import StreamWrapper

    return StreamWrapper


def _mk_stub_classes():
    StreamWrapper = _stream_cls()

    class StubStream(StreamWrapper):
        """Raw transport: data[:end]; read(n) returns 1..n bytes (next entry of `chunks`, or
        the fixed chunk size `fixed`; once `chunks` is used up everything asked for), b'' at EOF."""

        def __init__(self, data, end, chunks=(), fixed=None, cyclic=False):
            super().__init__(None)
            self.cyclic = cyclic
            self.data = data
            self.end = end
            self.pos = 0
            self.chunks = list(chunks)
            self.ci = 0
            self.fixed = fixed
            self.eof_reads = 0
            self.closed = False

        async def close(self):
            self.closed = True

        async def read(self, size=None):
            avail = self.end - self.pos
            if avail <= 0:
                self.eof_reads += 1
                if self.eof_reads > EOF_BUDGET:
                    raise StubLivelock("more than " + str(EOF_BUDGET) + " reads at EOF")
                return b""
            if size is not None and size == 0:
                return b""
            k = avail
            if size is not None and 0 < size < k:
                k = size
            if self.fixed is not None:
                if self.fixed < k:
                    k = self.fixed
            elif self.ci < len(self.chunks):
                c = self.chunks[self.ci]
                self.ci += 1
                if self.cyclic and self.ci == len(self.chunks):
                    self.ci = 0
                if c < k:
                    k = c
            out = self.data[self.pos : self.pos + k]
            self.pos += len(out)
            return out

        async def write(self, data):
            raise NotImplementedError

    class StubSink(StreamWrapper):
        def __init__(self):
            super().__init__(None)
            self.parts = []
            self.closed = False

        async def close(self):
            self.closed = True

        async def read(self, size=None):
            raise NotImplementedError

        async def write(self, data):
            self.parts.append(bytes(data))

        def value(self):
            return b"".join(self.parts)

    return StubStream, StubSink


_CLS = None


def _stubs():
    global _CLS
    if _CLS is None:
        _CLS = _mk_stub_classes()
    return _CLS


class SyncSource:
    """A local file opened 'rb': read(n) returns n bytes unless EOF."""

    def __init__(self, data, end, pos=0):
        self.data, self.end, self.pos, self.eof_reads = data, end, pos, 0

    def read(self, n=-1):
        avail = self.end - self.pos
        if avail <= 0:
            self.eof_reads += 1
            if self.eof_reads > EOF_BUDGET:
                raise StubLivelock("more than " + str(EOF_BUDGET) + " reads at EOF")
            return b""
        k = avail if (n is None or n < 0 or n > avail) else n
        out = self.data[self.pos : self.pos + k]
        self.pos += len(out)
        return out


class SyncSink:
    def __init__(self):
        self.parts = []

    def write(self, b):
        self.parts.append(bytes(b))
        return len(b)

    def value(self):
        return b"".join(self.parts)


def _run(coro):
    from lib.detloop import DetLoop

    loop = DetLoop(max_steps=200000)
    with loop:
        return loop.run_until_complete(coro)


def _seekable(stub):
    from streamflow.deployment.aiotarstream import SeekableStreamReaderWrapper
    from streamflow.deployment.stream import BaseStreamWrapper

    return SeekableStreamReaderWrapper(BaseStreamWrapper(stub))


# ------------------------------------------------------------------ L1 chunk normalisation


def prop_tell_read(end, sizes, chunks, tail_none=True) -> bool:
    """TellableStreamWrapper.read(size) == data[pos:pos+size] (short only at EOF), tell() exact."""
    from streamflow.deployment.aiotarstream import TellableStreamWrapper
    from streamflow.deployment.stream import BaseStreamWrapper

    StubStream, _ = _stubs()

    async def scn():
        stub = StubStream(DATA, end, chunks)
        w = TellableStreamWrapper(BaseStreamWrapper(stub))
        pos = 0
        for s in sizes:
            r = await w.read(s)
            n = len(r)
            if s <= end - pos:
                if n != s:
                    return False
            elif n != end - pos:
                return False
            if r != DATA[pos : pos + n]:
                return False
            pos += n
            if w.tell() != pos or stub.pos != pos:
                return False
        if tail_none:
            r = await w.read(None)
            if len(r) != end - pos or r != DATA[pos : pos + len(r)]:
                return False
            if w.tell() != end:
                return False
        return True

    return _run(scn())


def prop_seek_forward(end, s0, off, s1, chunks) -> bool:
    """requires min(s0,end) <= off <= end. After read(s0); seek(off): tell()==off, the raw stream has
    consumed exactly `off` bytes and read(s1) returns data[off:off+s1]."""
    StubStream, _ = _stubs()

    async def scn():
        stub = StubStream(DATA, end, chunks)
        w = _seekable(stub)
        r0 = await w.read(s0)
        if r0 != DATA[: len(r0)] or w.tell() != len(r0):
            return False
        await w.seek(off)
        if w.tell() != off:
            return False
        if stub.pos != off:
            return False
        r1 = await w.read(s1)
        n = len(r1)
        if s1 <= end - off:
            if n != s1:
                return False
        elif n != end - off:
            return False
        base = stub.pos - n
        if base != off:
            return False
        return r1 == DATA[base : base + n]

    return _run(scn())


def prop_seek_backward(end, s0, off, s1, chunks) -> bool:
    """requires off < min(s0, end). seek(off) raises ReadError and does not disturb the stream."""
    StubStream, _ = _stubs()

    async def scn():
        stub = StubStream(DATA, end, chunks)
        w = _seekable(stub)
        r0 = await w.read(s0)
        p = len(r0)
        try:
            await w.seek(off)
            return False
        except tarfile.ReadError:
            pass
        if w.tell() != p or stub.pos != p:
            return False
        r1 = await w.read(s1)
        return r1 == DATA[p : p + len(r1)] and (len(r1) == s1 or p + len(r1) == end)

    return _run(scn())


def prop_seek_past_eof(end, s0, off, chunks) -> bool:
    """L3, requires off > end. The gap cannot be consumed: seek must raise (not claim position == off)."""
    StubStream, _ = _stubs()

    async def scn():
        stub = StubStream(DATA, end, chunks)
        w = _seekable(stub)
        await w.read(s0)
        try:
            await w.seek(off)
        except _allowed():
            return True
        return False

    return _run(scn())


def prop_member_reader(offset, size, pre, bs, chunks, blockinfo=None, end=None) -> bool:
    """FileStreamReaderWrapper over a seekable stream that has already consumed `pre` <= offset
    bytes, read as extract_tar_stream does (`while content := await f.read(bs)`): the
    concatenation is exactly the member (data[offset:offset+size], holes as NULs), nothing beyond
    the member is consumed from the stream. bs == 0 stands for read(None)."""
    from streamflow.deployment.aiotarstream import FileStreamReaderWrapper

    StubStream, _ = _stubs()
    if end is None:
        end = len(DATA)

    async def scn():
        stub = StubStream(DATA, end)
        w = _seekable(stub)
        await w.read(pre)  # positioning, not chunked
        stub.chunks = list(chunks)
        f = FileStreamReaderWrapper(w, offset, size, blockinfo)
        got = []
        rounds = 0
        while True:
            content = await f.read(None if bs == 0 else bs)
            if not content:
                break
            if bs != 0 and len(content) > bs:
                return False
            got.append(content)
            rounds += 1
            if rounds > 200:
                return False
        if blockinfo is None:
            want = DATA[offset : offset + size]
            stored = size
        else:
            want = b""
            last = 0
            stored = 0
            for o, s in blockinfo:
                want += b"\0" * (o - last) + DATA[offset + stored : offset + stored + s]
                stored += s
                last = o + s
            want += b"\0" * (size - last)
        if b"".join(got) != want:
            return False
        # never beyond the member; stored > 0 => positioned right behind its last stored byte
        if stored > 0 and stub.pos != offset + stored:
            return False
        if stored == 0 and stub.pos != pre:
            return False
        return True

    return _run(scn())


# ------------------------------------------------------------------ L2 / L3 copyfileobj


def _mk_src(kind, end, p0, chunks):
    """0: SeekableStreamReaderWrapper over the chunked stub (AioTarStream.makefile);
    1: the chunked stub itself (any StreamWrapper with short reads); 2: local file (addfile)."""
    StubStream, _ = _stubs()

    if kind == 2:
        s = SyncSource(DATA, end, 0)
        return s, s
    stub = StubStream(DATA, end)
    if kind == 0:
        return _seekable(stub), stub
    return stub, stub


def prop_copy(p0, length, bufsize, chunks, src_kind, dst_kind, end=None) -> bool:
    """copyfileobj(src, dst, length, bufsize) with src positioned at p0.
    end is None (complete stream): exactly data[p0:p0+length] arrives, in order, src consumed exactly.
    end < p0+length (truncated): must raise an allowed exception (never return, never spin)."""
    from streamflow.deployment.aiotarstream import TellableStreamWrapper, copyfileobj

    _, StubSink = _stubs()
    truncated = end is not None
    if end is None:
        end = len(DATA)

    async def scn():
        src, raw = _mk_src(src_kind, end, p0, chunks)
        # position the source at p0 (not chunked), then install the chunk sizes
        if src_kind == 2:
            raw.read(p0)
        else:
            await src.read(p0)
            raw.chunks = list(chunks)
        if dst_kind == 0:
            sink = dst = SyncSink()
        else:
            sink = StubSink()
            dst = TellableStreamWrapper(sink)
        try:
            await copyfileobj(src, dst, length, bufsize)
        except _allowed():
            return truncated
        except StubLivelock:
            return False
        if truncated:
            return False
        out = sink.value()
        if len(out) != length or out != DATA[p0 : p0 + len(out)]:
            return False
        if raw.pos != p0 + len(out):
            return False
        if src_kind == 0 and src.tell() != p0 + len(out):
            return False
        if dst_kind == 1 and dst.tell() != len(out):
            return False
        return True

    return _run(scn())


# ------------------------------------------------------------------ in-memory file system


class MemFS:
    def __init__(self, dirs=("/", "/dst")):
        self.files = {}  # path -> list of chunks (present as soon as opened for writing)
        self.open_files = {}
        self.dirs = set(dirs)
        self.modes = {}

    def content(self, path):
        return b"".join(self.files[path])


class _MemFile:
    def __init__(self, fs, path):
        self.fs, self.path = fs, path
        fs.files[path] = []
        fs.open_files[path] = True

    def __enter__(self):
        return self

    def __exit__(self, *a):
        self.fs.open_files[self.path] = False
        return False

    def write(self, b):
        self.fs.files[self.path].append(bytes(b))
        return len(b)


class _ShimPath:
    curdir = "."
    sep = "/"

    def __init__(self, fs):
        self.fs = fs
        for n in ("join", "normpath", "dirname", "basename", "relpath", "split", "splitdrive", "isabs"):
            setattr(self, n, getattr(posixpath, n))

    def isdir(self, p):
        return posixpath.normpath(p) in self.fs.dirs

    def exists(self, p):
        p = posixpath.normpath(p)
        return p in self.fs.dirs or p in self.fs.files

    lexists = exists


class ShimOS:
    """What aiotarstream / connector.base use from `os`, over MemFS."""

    sep = "/"
    curdir = "."

    def __init__(self, fs):
        import os as _os

        self.fs = fs
        self.path = _ShimPath(fs)
        self.PathLike = _os.PathLike

    def makedirs(self, p, exist_ok=False):
        p = posixpath.normpath(p)
        while p not in self.fs.dirs and p not in ("", "/"):
            self.fs.dirs.add(p)
            p = posixpath.dirname(p)

    def mkdir(self, p, mode=0o777):
        p = posixpath.normpath(p)
        if p in self.fs.dirs or p in self.fs.files:
            raise FileExistsError(p)
        if posixpath.dirname(p) not in self.fs.dirs:
            raise FileNotFoundError(p)
        self.fs.dirs.add(p)

    def chmod(self, p, mode):
        self.fs.modes[posixpath.normpath(p)] = mode

    def utime(self, p, times):
        pass

    def geteuid(self):
        return 1000


class _Patched:
    """Bind `os` / `open` / `bltn_open` inside the two modules to the in-memory model."""

    def __init__(self, fs):
        self.fs = fs

    def __enter__(self):
        import streamflow.deployment.aiotarstream as at
        import streamflow.deployment.connector.base as cb

        self.at, self.cb = at, cb
        self.saved = (at.os, at.bltn_open, cb.os)
        shim = ShimOS(self.fs)

        def mem_open(path, mode="r", *a, **k):
            if mode != "wb":
                raise OSError("MemFS supports 'wb' only")
            path = posixpath.normpath(path)
            if posixpath.dirname(path) not in self.fs.dirs:
                raise FileNotFoundError(path)
            return _MemFile(self.fs, path)

        at.os = shim
        at.bltn_open = mem_open
        cb.os = shim
        cb.open = mem_open
        return self.fs

    def __exit__(self, *a):
        self.at.os, self.at.bltn_open, self.cb.os = self.saved
        if "open" in self.cb.__dict__:
            del self.cb.open
        return False


# ------------------------------------------------------------------ archives (written by CPython's tarfile)


def _content(n, salt):
    return bytes((salt + i * 7 + (i >> 8) * 13) % 251 for i in range(n))


LONG = "L" * 110 + ".txt"
LONGDIRS = "d" * 60 + "/" + "e" * 60 + ".txt"


def _tree(kind):
    """[(name, is_dir, content)] relative to the top directory 'tree'."""
    if kind == "two":  # the minimal two-file archive
        return [("tree", True, None), ("tree/a.txt", False, _content(1500, 1)), ("tree/sub", True, None), ("tree/sub/b.txt", False, _content(10, 2))]
    if kind == "long":  # name > 100 bytes (GNU long name / pax path record / ustar prefix split)
        return [
            ("tree", True, None),
            ("tree/a.txt", False, _content(1500, 1)),
            ("tree/" + LONG, False, _content(37, 3)),
            ("tree/sub", True, None),
            ("tree/sub/b.txt", False, _content(700, 2)),
            ("tree/empty", False, b""),
            ("tree/c.bin", False, _content(512, 4)),
        ]
    if kind == "longdirs":  # ustar-representable long path
        return [
            ("tree", True, None),
            ("tree/a.txt", False, _content(1500, 1)),
            ("tree/" + "d" * 60, True, None),
            ("tree/" + LONGDIRS, False, _content(37, 3)),
            ("tree/z.txt", False, _content(513, 5)),
        ]
    if kind == "single":  # one file, copied into an existing directory (extract route of extract_tar_stream)
        return [("a.txt", False, _content(1500, 1))]
    if isinstance(kind, tuple) and kind[0] == "param":  # name length / file size chosen by the solver
        _, full_len, size = kind
        name = "tree/" + "n" * (full_len - 5)
        return [("tree", True, None), (name, False, _content(size, 6)), ("tree/z.txt", False, _content(10, 7))]
    raise ValueError(kind)


FORMATS = {"ustar": tarfile.USTAR_FORMAT, "gnu": tarfile.GNU_FORMAT, "pax": tarfile.PAX_FORMAT}


def _build(kind, fmt):
    """-> (archive bytes, members [(name,is_dir,content)], boundaries dict)"""
    bio = io.BytesIO()
    marks = []  # (label, offset)
    with tarfile.open(fileobj=bio, mode="w", format=FORMATS[fmt]) as tf:
        for name, is_dir, content in _tree(kind):
            ti = tarfile.TarInfo(name)
            ti.mtime = 1700000000
            ti.uid = ti.gid = 1000
            ti.uname = ti.gname = "user"
            start = bio.tell()
            if is_dir:
                ti.type = tarfile.DIRTYPE
                ti.mode = 0o755
                tf.addfile(ti)
            else:
                ti.mode = 0o644
                ti.size = len(content)
                tf.addfile(ti, io.BytesIO(content))
            stop = bio.tell()
            marks.append((name, start, stop, 0 if is_dir else len(content)))
        payload_end = bio.tell()
    raw = bio.getvalue()
    return raw, _tree(kind), marks, payload_end


_ARCH = {}


def archive(kind, fmt):
    key = (kind, fmt)
    if key not in _ARCH:
        _ARCH[key] = _build(kind, fmt)
    return _ARCH[key]



def cut_points(kind, fmt, few_e=False):
    """Truncation points of interest with their class:
    F  inside the header block(s) of the first member (nothing has been extracted yet)
    H  at a member boundary or inside the header block(s) of a later member
    D  behind a complete header, inside the data or the padding of a regular file
    E  behind the last member: inside / instead of the end-of-archive marker and record padding"""
    raw, tree, marks, payload_end = archive(kind, fmt)
    pts = {}

    def put(t, cls):
        if 0 <= t < len(raw) and t not in pts:
            pts[t] = cls

    for idx, (name, start, stop, size) in enumerate(marks):
        data_blocks = ((size + 511) // 512) * 512
        hdr_end = stop - data_blocks  # end of the last header block of this member
        hc = "F" if idx == 0 else "H"
        for t in (start, start + 1, start + 257, hdr_end - 512, hdr_end - 511, hdr_end - 1):
            if start <= t < hdr_end:
                put(t, hc)
        if size:
            for t in (hdr_end, hdr_end + 1, hdr_end + size // 2, hdr_end + size - 1, hdr_end + size, hdr_end + size + 1, stop - 1):
                if hdr_end <= t < stop:
                    put(t, "D")
    e_pts = (payload_end, payload_end + 1, payload_end + 511, payload_end + 512, payload_end + 513, payload_end + 1023, payload_end + 1024, len(raw) - 1)
    if few_e:
        e_pts = (payload_end, payload_end + 1, payload_end + 512, payload_end + 1024)
    for t in e_pts:
        if t >= payload_end:
            put(t, "E")
    return sorted(pts.items())


def _expected(tree, dst, route):
    files, dirs = {}, set()
    for name, is_dir, content in tree:
        if route == "single":
            p = posixpath.normpath(posixpath.join(dst, name))
        else:
            p = posixpath.normpath(posixpath.join(dst, posixpath.relpath(name, "tree")))
        if is_dir:
            dirs.add(p)
        else:
            files[p] = content
    return files, dirs


def _extract(raw, end, fixed, driver, chunks=(), cyclic=False):
    """Run the real reader over raw[:end]; -> (MemFS, allowed exception or None)."""
    from streamflow.deployment import aiotarstream
    from streamflow.deployment.connector.base import extract_tar_stream

    StubStream, _ = _stubs()
    fs = MemFS()
    err = None

    async def scn():
        stub = StubStream(raw, end, chunks, fixed=fixed, cyclic=cyclic)
        if driver == "ets_tree":  # copy_remote_to_local of directory /x/tree to /dst/out (not existing yet)
            async with aiotarstream.open(stream=stub, mode="r", copybufsize=64) as tar:
                await extract_tar_stream(tar, "/x/tree", "/dst/out", 64)
        elif driver == "ets_single":  # copy of file /x/a.txt into the existing directory /dst
            async with aiotarstream.open(stream=stub, mode="r", copybufsize=64) as tar:
                await extract_tar_stream(tar, "/x/a.txt", "/dst", 64)
        else:  # generic: AioTarStream.extract of every member below /dst (makefile / copyfileobj route)
            async with aiotarstream.open(stream=stub, mode="r", copybufsize=64) as tar:
                async for member in tar:
                    await tar.extract(member, "/dst")

    with _Patched(fs):
        try:
            _run(scn())
        except _allowed() as e:
            err = e
        except StubLivelock as e:  # spinning at EOF: never acceptable
            err = e
    return fs, err


def _exact(fs, files, dirs) -> bool:
    if set(fs.files) != set(files):
        return False
    for p, c in files.items():
        if fs.open_files.get(p):
            return False
        if fs.content(p) != c:
            return False
        if fs.modes.get(p) != 0o644:
            return False
    for d in dirs:
        if d not in fs.dirs:
            return False
    return True


def _want(kind, fmt, driver):
    raw, tree, marks, payload_end = archive(kind, fmt)
    if driver == "ets_tree":
        return _expected(tree, "/dst/out", "tree")
    if driver == "ets_single":
        return _expected(tree, "/dst", "single")
    files, dirs = {}, set()
    for name, is_dir, content in tree:
        p = posixpath.join("/dst", name)
        if is_dir:
            dirs.add(p)
        else:
            files[p] = content
    return files, dirs


CHUNKS = list(range(1, 17)) + [511, 512, 513]


def _sel(table, i):
    """table[i] for a symbolic index (realised through an == chain)."""
    for k in range(len(table)):
        if i == k:
            return table[k]
    return None


def prop_extract_complete(kind, fmt, driver, ci) -> bool:
    """Complete archive, every raw read returns min(asked, CHUNKS[ci]) bytes: the tree is exact."""
    c = _sel(CHUNKS, ci)
    if c is None:
        return True
    raw, tree, marks, payload_end = archive(kind, fmt)
    files, dirs = _want(kind, fmt, driver)
    fs, err = _extract(raw, len(raw), c, driver)
    if err is not None:
        return False
    return _exact(fs, files, dirs)


# full path lengths around every limit of the tar formats: ustar name (100) and prefix (155, 255/256),
# GNU long-name block (511/512 incl. NUL) and pax record sizes (a 'NNN path=<name>\n' record of exactly 512)
PARAM_LENS = [95, 99, 100, 101, 155, 156, 157, 254, 255, 256, 257] + list(range(495, 516))
PARAM_SIZES = [0, 1, 511, 512, 513, 1024]
PARAM_CHUNKS = [7, 512, 4096]


def prop_extract_param(fmt, li, si, ci) -> bool:
    """A complete archive written by CPython tarfile whose long member name has a solver-chosen
    length (around every format limit) and whose file has a solver-chosen size (around the block
    size) is extracted exactly, for small / block-sized / large transport chunks."""
    full_len, size, c = _sel(PARAM_LENS, li), _sel(PARAM_SIZES, si), _sel(PARAM_CHUNKS, ci)
    if full_len is None or size is None or c is None:
        return True
    kind = ("param", full_len, size)
    try:
        raw, tree, marks, payload_end = archive(kind, fmt)
    except ValueError:
        return True  # the format cannot represent this name (ustar): nothing to read
    files, dirs = _want(kind, fmt, "ets_tree")
    fs, err = _extract(raw, len(raw), c, "ets_tree")
    if err is not None:
        return False
    return _exact(fs, files, dirs)


CYC = [1, 3, 16, 100]


def prop_extract_cyclic(kind, fmt, driver, chunks) -> bool:
    """Complete archive, raw reads return chunk sizes cycling through CYC[c] for the solver-chosen
    selectors c in `chunks` (a chunking that varies along the stream)."""
    raw, tree, marks, payload_end = archive(kind, fmt)
    files, dirs = _want(kind, fmt, driver)
    chunks = [_sel(CYC, c) for c in chunks]  # realise: one path per chunk-size tuple
    if None in chunks:
        return True
    fs, err = _extract(raw, len(raw), None, driver, chunks=chunks, cyclic=True)
    if err is not None:
        return False
    return _exact(fs, files, dirs)


def cuts(cases_key, cls):
    """flat list of (kind, fmt, driver, t) over the archives CASES[cases_key] for cut classes `cls`."""
    out = []
    for kind, fmt, driver in CASES[cases_key]:
        for t, c in cut_points(kind, fmt, few_e=cases_key.startswith("q_")):
            if c in cls:
                out.append((kind, fmt, driver, t))
    return out


_CUTS = {}


def prop_extract_truncated(cases_key, cls, lo, i, ci, t_chunks) -> bool:
    """The stream is cut at the (lo+i)-th cut point of class `cls` of the archives in CASES[cases_key];
    fixed chunk size t_chunks[ci]. The copy raises, or every member is present and complete
    (possible only for cuts behind the last member). Never a normal return with a missing or partial file."""
    key = (cases_key, cls)
    if key not in _CUTS:
        _CUTS[key] = cuts(cases_key, cls)
    table = _CUTS[key]
    c = _sel(t_chunks, ci)
    sel = None
    for k in range(lo, len(table)):
        if i == k - lo:
            sel = table[k]
            break
    if sel is None or c is None:
        return True
    kind, fmt, driver, t = sel
    raw, tree, marks, payload_end = archive(kind, fmt)
    files, dirs = _want(kind, fmt, driver)
    fs, err = _extract(raw, t, c, driver)
    if err is not None:
        # the copy failed, which is what the statement requires (spinning at EOF is not failing)
        return not isinstance(err, StubLivelock)
    return _exact(fs, files, dirs)


def header_blocks(kind, fmt):
    """offsets of all 512-byte header blocks (incl. pax / long-name extension headers)."""
    raw, tree, marks, payload_end = archive(kind, fmt)
    out = []
    with tarfile.open(fileobj=io.BytesIO(raw), mode="r") as tf:
        for m in tf.getmembers():
            out.append(m.offset_data - 512)
            out.append(m.offset)
    return sorted(set(out))


MASKS = [0x01, 0x80, 0x20, 0xFF]
# first / last byte of every ustar header field plus a byte in the middle of the long ones
FIELD_POS_Q = [0, 100, 124, 148, 155, 156, 257, 511]
FIELD_POS = [0, 1, 50, 99, 100, 107, 108, 115, 116, 123, 124, 130, 135, 136, 147, 148, 151, 154, 155, 156, 157, 200, 256, 257, 262, 263, 264, 265, 280, 296, 297, 328, 329, 336, 337, 344, 345, 400, 499, 500, 511]


POS_TABLES = {"q": FIELD_POS_Q, "f": FIELD_POS, "all": list(range(512))}


def prop_extract_corrupt(kind, fmt, driver, c, hi, pi, mi, table="q") -> bool:
    """One byte of header block hi (offset POS_TABLES[table][pi]) is xor-ed with
    MASKS[mi]: the copy raises, or the tree is nevertheless exact (a change inside the checksum field
    that does not change its value)."""
    raw, tree, marks, payload_end = archive(kind, fmt)
    files, dirs = _want(kind, fmt, driver)
    off = _sel(header_blocks(kind, fmt), hi)
    mask = _sel(MASKS, mi)
    pos = _sel(POS_TABLES[table], pi)
    if off is None or mask is None or pos is None:
        return True
    p = off + pos
    bad = raw[:p] + bytes([raw[p] ^ mask]) + raw[p + 1 :]
    fs, err = _extract(bad, len(bad), c, driver)
    if err is not None:
        return not isinstance(err, StubLivelock)
    return _exact(fs, files, dirs)


# ------------------------------------------------------------------ L5 writer

W_SIZES = [0, 1, 512, 513, 1500, 511]
W_BUFS = [None, 1, 7, 16, 512, 513]
W_FMTS = [tarfile.USTAR_FORMAT, tarfile.GNU_FORMAT, tarfile.PAX_FORMAT]


def prop_writer(fmt_i, n_i, buf_i, chunks, src_kind, long_name) -> bool:
    """AioTarStream(mode w).addfile of a directory, a file of W_SIZES[n_i] bytes (optionally with a
    >100-byte name) and a 10-byte file, copy buffer W_BUFS[buf_i]; then close. CPython's tarfile
    must read back exactly these members and contents; the archive is a whole number of records."""
    from streamflow.deployment import aiotarstream

    StubStream, StubSink = _stubs()
    fmt = _sel(W_FMTS, fmt_i)
    n = _sel(W_SIZES, n_i)
    bi = _sel(list(range(len(W_BUFS))), buf_i)
    if fmt is None or n is None or bi is None:
        return True
    bufsize = W_BUFS[bi]
    body = _content(n, 9)
    small = _content(10, 2)
    if long_name:
        name = "tree/" + (LONGDIRS if fmt == tarfile.USTAR_FORMAT else LONG)
    else:
        name = "tree/a.txt"
    members = [("tree", True, None), (name, False, body), ("tree/b.txt", False, small)]
    sink = StubSink()

    async def scn():
        async with aiotarstream.open(stream=sink, mode="w", format=fmt, copybufsize=bufsize) as tar:
            for nm, is_dir, content in members:
                ti = aiotarstream.AioTarInfo(nm)
                ti.mtime = 1700000000
                ti.uid = ti.gid = 1000
                ti.uname = ti.gname = "user"
                if is_dir:
                    ti.type = tarfile.DIRTYPE
                    ti.mode = 0o755
                    await tar.addfile(ti)
                else:
                    ti.mode = 0o644
                    ti.size = len(content)
                    if src_kind == 2:
                        src = SyncSource(content, len(content))
                    else:
                        src = StubStream(content, len(content), chunks if content is body else ())
                    await tar.addfile(ti, src)

    _run(scn())
    out = sink.value()
    if len(out) % tarfile.RECORDSIZE != 0 or not sink.closed:
        return False
    got = []
    with tarfile.open(fileobj=io.BytesIO(out), mode="r:") as tf:
        for m in tf:
            if m.isdir():
                got.append((m.name, True, None))
            elif m.isreg():
                got.append((m.name, False, tf.extractfile(m).read()))
            else:
                return False
            if m.mode != (0o755 if m.isdir() else 0o644) or m.mtime != 1700000000 or m.uid != 1000:
                return False
    return got == members


def prop_writer_trailer(k) -> bool:
    """AioTarStream(mode w) closed after k blocks of members (offset = 512*k, any k): the archive ends
    with at least two zero blocks (end-of-archive marker) and is a whole number of records; nothing
    but NULs is appended. One inductive step of close() from an arbitrary block-aligned offset."""
    from streamflow.deployment import aiotarstream

    StubStream, StubSink = _stubs()
    kk = _sel(list(range(W_TRAILER_K)), k)
    if kk is None:
        return True
    sink = StubSink()
    body = b"x" * (tarfile.BLOCKSIZE * kk)

    async def scn():
        tar = await aiotarstream.open(stream=sink, mode="w", format=tarfile.GNU_FORMAT).__aenter__()
        await sink.write(body)
        tar.offset = len(body)
        await tar.close()

    _run(scn())
    out = sink.value()
    if not sink.closed or out[: len(body)] != body:
        return False
    tail = out[len(body) :]
    if len(tail) < 2 * tarfile.BLOCKSIZE or len(out) % tarfile.RECORDSIZE != 0:
        return False
    return tail == tarfile.NUL * len(tail) and len(tail) < 2 * tarfile.BLOCKSIZE + tarfile.RECORDSIZE


W_TRAILER_K = 64


def prop_writer_short_source(fmt_i, n_i, buf_i, short, src_kind) -> bool:
    """L3 for the writer: the source holds `short` < size bytes: addfile must raise (no spinning,
    no archive that silently contains a short member)."""
    from streamflow.deployment import aiotarstream

    StubStream, StubSink = _stubs()
    fmt = _sel(W_FMTS, fmt_i)
    n = _sel(W_SIZES, n_i)
    bi = _sel(list(range(len(W_BUFS))), buf_i)
    if fmt is None or n is None or bi is None or not (0 <= short < n):
        return True
    body = _content(n, 9)
    sink = StubSink()

    async def scn():
        async with aiotarstream.open(stream=sink, mode="w", format=fmt, copybufsize=W_BUFS[bi]) as tar:
            ti = aiotarstream.AioTarInfo("a.txt")
            ti.size = n
            src = SyncSource(body, short) if src_kind == 2 else StubStream(body, short)
            await tar.addfile(ti, src)

    try:
        _run(scn())
    except _allowed():
        return True
    except StubLivelock:
        return False
    return False


# ------------------------------------------------------------------ obligations

IMPORTS = (
    "import streamflow.deployment.aiotarstream, streamflow.deployment.connector.base, streamflow.core.exception\n"
    "from harness.C23 import *"
)

G1 = "L1 chunk normalisation: reads, tell and forward seeks are exact for every chunking"
G2 = "L2 copyfileobj writes exactly `length` bytes in order for every chunking"
G3 = "L3 truncation at wrapper level: a stream that ends early makes the copy / the skip raise (no short copy, no spinning)"
G4 = "L4 tar reader: the extracted tree is exact for every chunk size"
G4T = "L4 tar reader: a truncated archive makes the copy fail (or every member is complete), never silently missing or partial files"
G4C = "L4 tar reader: a corrupted member header makes the copy fail, never silently missing files"
G5 = "L5 tar writer: archives written by AioTarStream are read back identically by CPython's tarfile"

CASES = {
    "q_complete": [("two", "ustar", "ets_tree"), ("long", "gnu", "ets_tree"), ("long", "pax", "generic"), ("longdirs", "ustar", "generic"), ("single", "gnu", "ets_single")],
    "q": [("two", "ustar", "ets_tree"), ("long", "gnu", "ets_tree"), ("two", "pax", "generic"), ("single", "gnu", "ets_single")],
    "t_tree": [("two", "ustar", "ets_tree"), ("two", "gnu", "ets_tree"), ("two", "pax", "ets_tree"), ("long", "gnu", "ets_tree"), ("long", "pax", "ets_tree"), ("longdirs", "ustar", "ets_tree"), ("single", "ustar", "ets_single"), ("single", "pax", "ets_single")],
    "t_gen": [("two", "ustar", "generic"), ("two", "gnu", "generic"), ("two", "pax", "generic"), ("long", "gnu", "generic"), ("long", "pax", "generic"), ("longdirs", "ustar", "generic"), ("single", "gnu", "generic"), ("single", "gnu", "ets_single")],
}
CLASS_NAMES = {"F": "first_header", "H": "later_header_or_boundary", "D": "data_or_padding", "E": "end_marker"}
CLASS_WORDS = {
    "F": "inside the header block(s) of the first member",
    "H": "at a member boundary or inside the header block(s) of a later member",
    "D": "behind a complete header, inside the data or the padding of a regular file",
    "E": "behind the last member (end-of-archive marker / record padding cut)",
}


def _ints(names, lo, hi):
    return ", ".join(f"{n}: int" for n in names), [f"{lo} <= {n} <= {hi}" for n in names]


def specs(tier: str):
    quick = tier == "quick"
    out = []

    def add(name, group, params, pre, call, bound, symbolic, targets, cond=None):
        out.append(
            Spec(
                name=name,
                group=group,
                source=mk_source(IMPORTS, params, pre, call),
                cond=cond or (900 if quick else 3000),
                path=120,
                bound=bound,
                symbolic=symbolic,
                targets=targets,
            )
        )

    def chunkvars(n, k):
        ch = [f"c{i}" for i in range(n)]
        chp, chpre = _ints(ch, 1, k)
        words = f"the first {n} raw reads return min(asked, available, c_i) bytes with every c_i symbolic in 1..{k}, later reads return everything asked"
        return chp, chpre, "[" + ", ".join(ch) + "]", words

    NCH = 4 if quick else 6
    K = 3
    E = 8 if quick else 10
    chp, chpre, chl, cw = chunkvars(NCH, K)
    N = len(DATA)
    S2 = 2 if quick else 3
    chpm, chprem, chlm, cwm = chunkvars(3 if quick else 5, 2)  # member reader
    M = 6 if quick else 8
    HS = 1 if quick else 2
    chps, chpres, chls, cws = chunkvars(2, 3)  # sparse member reader

    # ---- L1
    add(
        "L1_tell_read",
        G1,
        f"s1: int, s2: int, {chp}",
        [f"0 <= s1 <= {E}", f"0 <= s2 <= {S2}"] + chpre,
        f"prop_tell_read({N}, [s1, s2], {chl}, tail_none=False)",
        f"TellableStreamWrapper over BaseStreamWrapper, {N}-byte stream (no EOF involved): read(s1), read(s2) with s1 0..{E}, s2 0..{S2} return exactly the next s bytes, tell() and the raw position are exact; {cw}",
        f"2 read sizes, {NCH} chunk sizes",
        T_TELL,
    )
    chp2, chpre2, chl2, cw2 = chunkvars(2 if quick else 3, K)
    add(
        "L1_tell_read_eof",
        G1,
        f"end: int, s1: int, {chp2}",
        [f"0 <= end <= {E}", f"0 <= s1 <= {E + 2}"] + chpre2,
        f"prop_tell_read(end, [s1], {chl2})",
        f"stream of `end` bytes (0..{E}): read(s1) with s1 0..{E + 2} is short only at EOF, then read(None) returns exactly the rest and tell()==end; {cw2}",
        f"end, read size, chunk sizes",
        T_TELL,
    )
    add(
        "L1_seek_forward",
        G1,
        f"s0: int, gap: int, s1: int, {chp}",
        [f"0 <= s0 <= {S2 // 2}", f"0 <= gap <= {E}", f"0 <= s1 <= {S2}"] + chpre,
        f"prop_seek_forward({N}, s0, s0 + gap, s1, {chl})",
        f"SeekableStreamReaderWrapper on a {N}-byte stream: read(s0) (0..{S2 // 2}); seek(s0+gap) with gap 0..{E}; then tell()==offset, the raw stream has consumed exactly offset bytes and read(s1) (0..{S2}) returns data[offset:offset+s1]; {cw}",
        f"s0, gap, s1, {NCH} chunk sizes",
        T_SEEK,
    )
    add(
        "L1_seek_backward",
        G1,
        f"end: int, s0: int, off: int, s1: int, {chp2}",
        [f"1 <= end <= {E}", f"1 <= s0 <= {E}", "0 <= off", "off < s0", "off < end", "0 <= s1 <= 3"] + chpre2,
        f"prop_seek_backward(end, s0, off, s1, {chl2})",
        f"seek(off) with off < current position raises tarfile.ReadError and leaves position / stream untouched (end, s0 up to {E}); {cw2}",
        f"end, s0, offset, s1, chunk sizes",
        T_SEEK,
    )
    add(
        "L1_member_reader_aligned",
        G1,
        f"offset: int, size: int, bs: int, {chpm}",
        ["0 <= offset <= 1", f"0 <= size <= {M}", f"0 <= bs <= {M + 1}"] + chprem,
        f"prop_member_reader(offset, size, offset, bs, {chlm})",
        f"FileStreamReaderWrapper(offset 0..1, size 0..{M}) on a stream already positioned at offset, read in blocks of bs (0 = read(None), 1..{M + 1}) until b'' as extract_tar_stream does: exactly the member, no block longer than bs, nothing beyond the member consumed; {cwm}",
        f"offset, size, block size, chunk sizes",
        T_FILE,
    )
    add(
        "L1_member_reader_gap",
        G1,
        f"pre_: int, gap: int, size: int, bs: int, {chpm}",
        ["0 <= pre_ <= 1", f"1 <= gap <= {M - 2}", f"1 <= size <= {M - 2}", f"0 <= bs <= {M - 1}"] + chprem,
        f"prop_member_reader(pre_ + gap, size, pre_, bs, {chlm})",
        f"as L1_member_reader_aligned but the stream is gap (1..{M - 2}) bytes before the member, so the first read must skip the gap; size 1..{M - 2}, block size 0..{M - 1}; {cwm}",
        f"consumed prefix, gap, size, block size, chunk sizes",
        T_FILE,
    )
    add(
        "L1_member_reader_sparse",
        G1,
        f"h0: int, s0: int, h1: int, s1: int, tail: int, bs: int, {chps}",
        [f"0 <= h0 <= {HS}", f"1 <= s0 <= {HS + 1}", f"0 <= h1 <= {HS}", f"1 <= s1 <= {HS + 1}", f"0 <= tail <= {HS}", f"0 <= bs <= {3 if quick else 4}"] + chpres,
        f"prop_member_reader(3, h0 + s0 + h1 + s1 + tail, 3, bs, {chls}, blockinfo=[(h0, s0), (h0 + s0 + h1, s1)])",
        f"FileStreamReaderWrapper with a sparse map of two stored blocks (holes 0..{HS}, blocks 1..{HS + 1} bytes, block size 0..{3 if quick else 4}): holes read as NULs, stored bytes in order; {cws}",
        f"2 hole sizes, 2 block sizes, tail hole, block size, chunk sizes",
        T_FILE,
    )
    # ---- L2 / L3 copy
    L = 8 if quick else 12
    chp3, chpre3, chl3, cw3 = chunkvars(3 if quick else 5, K)
    kinds = [(0, 0, "seekable_to_file"), (1, 1, "rawstream_to_tellable"), (2, 1, "file_to_tellable")]
    if not quick:
        kinds.append((1, 0, "rawstream_to_file"))
    for sk, dk, nm in kinds:
        cp, cpre, cl, cwords = (chp3, chpre3, chl3, cw3) if sk != 2 else ("", [], "[]", "local-file source (read(n) returns n bytes unless EOF)")
        sep = ", " if cp else ""
        add(
            f"L2_copy_{nm}",
            G2,
            f"length: int, bufsize: int{sep}{cp}",
            [f"0 <= length <= {L}", f"0 <= bufsize <= {L}"] + cpre,
            f"prop_copy(2, length, bufsize, {cl}, {sk}, {dk})",
            f"copyfileobj(src, dst, length, bufsize) with src at position 2, length 0..{L}, bufsize 0..{L} (0 = default 16 KiB); src/dst = {nm}; exactly data[2:2+length] arrives in order and src is consumed exactly; {cwords}",
            "length, bufsize" + (", chunk sizes" if sk != 2 else ""),
            T_COPY,
        )
        add(
            f"L3_copy_truncated_{nm}",
            G3,
            f"length: int, bufsize: int, missing: int{sep}{cp}",
            [f"1 <= length <= {L}", f"0 <= bufsize <= {L}", "1 <= missing", "missing <= length"] + cpre,
            f"prop_copy(2, length, bufsize, {cl}, {sk}, {dk}, end=2 + length - missing)",
            f"as L2_copy_{nm} but the stream ends `missing` (1..length) bytes early: copyfileobj must raise TarError/EOFError/OSError/WorkflowExecutionException (a normal return or more than {EOF_BUDGET} reads at EOF is a violation)",
            "length, bufsize, missing bytes" + (", chunk sizes" if sk != 2 else ""),
            T_COPY,
        )
    add(
        "L3_seek_past_eof",
        G3,
        f"end: int, s0: int, over: int, {chp2}",
        [f"0 <= end <= {E}", f"0 <= s0 <= {E}", "1 <= over <= 4"] + chpre2,
        f"prop_seek_past_eof(end, s0, end + over, {chl2})",
        f"seek(end+over) on a stream of `end` bytes (0..{E}) after read(s0): the gap cannot be consumed, seek must raise instead of reporting position == offset; {cw2}",
        f"end, s0, overshoot, chunk sizes",
        T_SEEK,
    )
    # ---- L4 complete archives: one symbolic chunk-size selector
    nchunk = len(CHUNKS)
    arch = CASES["q_complete"] if quick else CASES["t_tree"] + CASES["t_gen"]
    for kind, fmt, driver in arch:
        add(
            f"L4_complete_{kind}_{fmt}_{driver}",
            G4,
            "ci: int",
            [f"0 <= ci <= {nchunk - 1}"],
            f"prop_extract_complete({kind!r}, {fmt!r}, {driver!r}, ci)",
            f"archive '{kind}' written by tarfile in {fmt} format, extracted through {_DRIVER_WORDS[driver]}; every raw read returns min(asked, c) bytes with c = CHUNKS[ci] over 1..16, 511, 512, 513: all members extracted with exactly their bytes and modes, no exception",
            "chunk size selector",
            T_TAR,
        )
    ncyc = 2 if quick else 3
    cyc = [f"c{i}" for i in range(ncyc)]
    cycp, cycpre = _ints(cyc, 0, len(CYC) - 1)
    for kind, fmt, driver in [("two", "gnu", "ets_tree")] if quick else [("two", "gnu", "ets_tree"), ("two", "pax", "generic")]:
        add(
            f"L4_cyclic_{kind}_{fmt}_{driver}",
            G4,
            cycp,
            cycpre,
            f"prop_extract_cyclic({kind!r}, {fmt!r}, {driver!r}, [{', '.join(cyc)}])",
            f"archive '{kind}' ({fmt}) through {_DRIVER_WORDS[driver]}; raw reads cycle through {ncyc} solver-chosen chunk sizes out of {CYC} (a chunking that varies along the stream)",
            f"{ncyc} chunk sizes",
            T_TAR,
        )
    # ---- L4 truncation, one group of obligations per cut class so that findings stay separate
    t_chunks = [16, 512] if quick else [1, 7, 512, 513]
    nt = len(t_chunks)
    per = 70 if quick else 80
    for key in ("q",) if quick else ("t_tree", "t_gen"):
        for cls in ("F", "D", "H", "E"):
            table = cuts(key, cls)
            nparts = max(1, -(-len(table) // per))
            size = -(-len(table) // nparts)
            for lo in range(0, len(table), size):
                n = min(size, len(table) - lo)
                add(
                    f"L4_trunc_{CLASS_NAMES[cls]}_{key}_{lo // size}",
                    G4T,
                    "i: int, ci: int",
                    [f"0 <= i <= {n - 1}", f"0 <= ci <= {nt - 1}"],
                    f"prop_extract_truncated({key!r}, {cls!r}, {lo}, i, ci, {t_chunks})",
                    f"stream cut {CLASS_WORDS[cls]}: cut points #{lo}..#{lo + n - 1} of {len(table)} (header start/+1/middle/last byte, data start/+1/middle/last byte/end, padding first/last byte, end-marker blocks) over archives {CASES[key]}; fixed chunk size t_chunks[ci] in {t_chunks}: the copy raises or every member is complete",
                    "cut point selector, chunk size selector",
                    T_TAR,
                )
    # ---- L4 corruption of one header byte
    # plan entries: archive, driver, offset table, number of masks, one obligation per header block?, offset ranges
    if quick:
        plan = [("two", "ustar", "ets_tree", "q", 2, False, 1)]
    else:
        plan = [("two", "ustar", "ets_tree", "all", 2, True, 4), ("long", "gnu", "generic", "f", 4, True, 1), ("long", "pax", "ets_tree", "f", 4, True, 1)]
    for kind, fmt, driver, table, nmask, split, nranges in plan:
        hb = header_blocks(kind, fmt)
        npos = len(POS_TABLES[table])
        pos_words = "any offset 0..511" if table == "all" else f"{npos} field-boundary offsets {POS_TABLES[table]}"
        groups = [(0, 0)] + ([(h, h) for h in range(1, len(hb))] if split else [(1, len(hb) - 1)])
        step = -(-npos // nranges)
        for h0, h1 in groups:
            for p0 in range(0, npos, step):
                p1 = min(npos, p0 + step) - 1
                first = h0 == 0
                add(
                    f"L4_corrupt_{'first' if first else 'later'}_header_{kind}_{fmt}_{driver}" + (f"_h{h0}" if split and not first else "") + (f"_p{p0}" if nranges > 1 else ""),
                    G4C,
                    "hi: int, pi: int, mi: int",
                    [f"{h0} <= hi <= {h1}", f"{p0} <= pi <= {p1}", f"0 <= mi <= {nmask - 1}"],
                    f"prop_extract_corrupt({kind!r}, {fmt!r}, {driver!r}, 512, hi, pi, mi, {table!r})",
                    f"archive '{kind}' ({fmt}), {_DRIVER_WORDS[driver]}, chunk 512: one byte of "
                    + ("the FIRST header block" if first else f"header block #{h0}..#{h1} (offsets {hb[h0 : h1 + 1]}; pax / GNU long-name extension headers included)")
                    + f" at {pos_words}" + (f", entries {p0}..{p1}" if nranges > 1 else "") + f", xor {MASKS[:nmask]}: the copy raises or is exact",
                    "header block, byte offset, mask",
                    T_TAR,
                )
    # ---- L5 writer
    bufs = [0, 2, 5] if quick else list(range(len(W_BUFS)))
    nsz = 5 if quick else len(W_SIZES)
    bufpre = " or ".join(f"buf_i == {b}" for b in bufs)
    add(
        "L5_writer_file_source",
        G5,
        "fmt_i: int, n_i: int, buf_i: int, ln: bool",
        ["0 <= fmt_i <= 2", f"0 <= n_i <= {nsz - 1}", bufpre],
        "prop_writer(fmt_i, n_i, buf_i, [], 2, ln)",
        f"AioTarStream mode 'w' (format USTAR/GNU/PAX): directory, file of {W_SIZES[:nsz]} bytes with a short or a >100-byte name, 10-byte file; copy buffer {[W_BUFS[b] for b in bufs]}; local-file source; read back by tarfile: same names, types, modes, contents; length multiple of {tarfile.RECORDSIZE}",
        "format, size selector, buffer selector, long-name flag",
        T_WRITE,
    )
    chp4, chpre4, chl4, cw4 = chunkvars(2 if quick else 3, 3)
    add(
        "L5_writer_stream_source",
        G5,
        f"fmt_i: int, n_i: int, buf_i: int, {chp4}",
        ["1 <= fmt_i <= 1" if quick else "0 <= fmt_i <= 2", "n_i == 1 or n_i == 3" if quick else "1 <= n_i <= 5", "buf_i == 0 or buf_i == 2" + ("" if quick else " or buf_i == 5")] + chpre4,
        f"prop_writer(fmt_i, n_i, buf_i, {chl4}, 1, fmt_i != 0)",
        f"as L5_writer_file_source with a chunked StreamWrapper source ({'GNU format, sizes 1/513, buffers None/7' if quick else 'sizes 1..1500, buffers None/7/513'}); {cw4}",
        "format, size selector, buffer selector, chunk sizes",
        T_WRITE,
    )
    add(
        "L5_writer_trailer",
        G5,
        "k: int",
        [f"0 <= k < {W_TRAILER_K}"],
        "prop_writer_trailer(k)",
        f"AioTarStream mode 'w' closed at any block-aligned offset 512*k, k in 0..{W_TRAILER_K - 1} (three records: every residue of the offset modulo the record size): the archive ends with >= 2 zero blocks, only NULs are appended, total length a multiple of {tarfile.RECORDSIZE}",
        "number of 512-byte blocks written before close",
        T_WRITE,
    )
    add(
        "L3_writer_short_source",
        G3,
        "n_i: int, buf_i: int, short: int, sk: int",
        [f"1 <= n_i <= {len(W_SIZES) - 1}", "buf_i == 0 or buf_i == 2" if quick else f"0 <= buf_i <= {len(W_BUFS) - 1}", "0 <= short <= 1 or 511 <= short <= 513" if quick else "0 <= short <= 2 or 509 <= short <= 514", "1 <= sk <= 2"],
        "prop_writer_short_source(1, n_i, buf_i, short, sk)",
        f"AioTarStream.addfile of a member of size {W_SIZES[1:]} whose source (stream or local file) ends after `short` < size bytes: addfile raises (no spinning, no silently short member)",
        "size selector, buffer selector, source length, source kind",
        T_WRITE,
    )
    # member-name lengths and file sizes around every format limit (solver-chosen)
    for fmt in ("pax", "gnu") if quick else ("pax", "gnu", "ustar"):
        out.append(
            Spec(
                name=f"L4_param_names_sizes_{fmt}",
                group="L4 archives with name lengths / file sizes at the format limits are extracted exactly",
                source=mk_source(IMPORTS, "li: int, si: int, ci: int", [f"0 <= li < {len(PARAM_LENS)}", f"0 <= si < {len(PARAM_SIZES) if not quick else 3}", f"0 <= ci < {len(PARAM_CHUNKS) if not quick else 2}"], f"prop_extract_param({fmt!r}, li, si + {0 if not quick else 2}, ci)"),
                cond=900 if quick else 3000,
                path=120,
                bound=f"{fmt} archive written by CPython tarfile: tree/<name> with full path length from {PARAM_LENS} (symbolic index), file size from {PARAM_SIZES if not quick else PARAM_SIZES[2:5]}, transport chunk from {PARAM_CHUNKS if not quick else PARAM_CHUNKS[:2]}",
                symbolic="name-length index, size index, chunk index",
                targets=T_TAR,
            )
        )
    return out


_DRIVER_WORDS = {
    "ets_tree": "the real extract_tar_stream(tar, '/x/tree', '/dst/out') (directory copy: FileStreamReaderWrapper route)",
    "ets_single": "the real extract_tar_stream(tar, '/x/a.txt', '/dst') (file into an existing directory: AioTarStream.extract route)",
    "generic": "AioTarStream.extract(member, '/dst') for every member (makefile / copyfileobj route)",
}
