"""C06, executor level — a whole CWL `loop` sub-graph run by the real StreamFlowExecutor.

The sub-graph is assembled from the REAL step classes exactly as
`streamflow.cwl.translator` wires a `cwltool:Loop` step called /l (checked against the
natively translated cwltool test workflows single-var-loop.cwl, two-vars-loop.cwl and
loop-inside-scatter.cwl: same steps, same port sharing):

  input side (`_create_loop_condition`), per loop variable v:
    /l/v-input-forward-transformer   ForwardTransformer        v: SRC_v -> A_v
    /l-loop-combinator               LoopCombinatorStep        v: A_v   -> B_v      (LoopCombinator, items = variables)
    /l-loop-when                     CWLLoopConditionalStep    v: B_v   -> C_v      skip port o: D_o
  body:
    /l                               harness Transformer       i: C_i (, j: C_j) -> o: E_o   (value + 1, tag unchanged)
  output side ("Process loop outputs"):
    /l/o-output-forward-transformer  ForwardTransformer        o: E_o -> D_o
    /l/o-loop-output                 CWLLoopOutput{Last,All}Step   o: D_o -> F_o
    /l-loop-terminator               CombinatorStep            o: F_o -> v: A_v     (LoopTerminationCombinator, item o, output items = variables)
  loop-back ("Connect loop outputs to loop inputs"):
    /l/i-back-propagation-transformer  ForwardTransformer      i: D_o -> A_i        (loop: {i: o})
    /l/j-back-propagation-transformer  ForwardTransformer      j: C_j -> A_j        (variable without loop source: carried along)
  around it:
    no scatter:  SRC_i = workflow input port (tag 0), F_o -> /o-collector -> OUT
    scatter:     /l/i-scatter ScatterStep IN_i -> SRC_i (tags 0.0, 0.1, ...); /l/o-gather GatherStep F_o -> G_o; G_o -> /o-collector -> OUT

A_v has three writers (input forwarder, back-propagation forwarder, loop terminator), D_o has two
(output forwarder, skip port of the loop condition) and two readers (loop output step,
back-propagation forwarder), F_o has two readers (loop terminator, gather/collector).
"""

from __future__ import annotations

import os

from crosshair.tracers import NoTracing, ResumedTracing

import streamflow.core.utils as cu
import streamflow.workflow.executor as ex_mod
from lib.detloop import Deadlock, DetLoop, Livelock, Prune
from lib.runner import Spec, mk_source
from lib.stubs import StubContext, new_workflow
from streamflow.core.exception import WorkflowExecutionException
from streamflow.core.utils import get_tag
from streamflow.core.workflow import Status, Token
from streamflow.cwl.step import CWLLoopConditionalStep, CWLLoopOutputAllStep, CWLLoopOutputLastStep
from streamflow.cwl.transformer import ForwardTransformer
from streamflow.workflow.combinator import LoopCombinator, LoopTerminationCombinator
from streamflow.workflow.executor import StreamFlowExecutor
from streamflow.workflow.step import CombinatorStep, GatherStep, LoopCombinatorStep, ScatterStep, Transformer
from streamflow.workflow.token import IterationTerminationToken, ListToken, TerminationToken

# VERIF_C06G_TRACE=1: run everything under CrossHair's tracer (slow; used once to check that the
# path counts are the same as with the tracer switched off between the points that read symbolic values)
_TRACE_ALL = os.environ.get("VERIF_C06G_TRACE") == "1"
_EXPLAIN = os.environ.get("VERIF_C06G_EXPLAIN") == "1"

T_GRAPH = (
    "streamflow.workflow.executor.StreamFlowExecutor.run",
    "streamflow.workflow.executor.StreamFlowExecutor._wait_outputs",
    "streamflow.workflow.executor.StreamFlowExecutor.close",
    "streamflow.workflow.step.LoopCombinatorStep.run",
    "streamflow.workflow.combinator.LoopCombinator._product",
    "streamflow.workflow.combinator.DotProductCombinator.combine",
    "streamflow.workflow.step.ConditionalStep.run",
    "streamflow.cwl.step.CWLLoopConditionalStep._on_true",
    "streamflow.cwl.step.CWLLoopConditionalStep._on_false",
    "streamflow.workflow.step.Transformer.run",
    "streamflow.cwl.transformer.ForwardTransformer.transform",
    "streamflow.workflow.step.LoopOutputStep.run",
    "streamflow.cwl.step.CWLLoopOutputAllStep._process_output",
    "streamflow.cwl.step.CWLLoopOutputLastStep._process_output",
    "streamflow.workflow.step.CombinatorStep.run",
    "streamflow.workflow.combinator.LoopTerminationCombinator._product",
    "streamflow.workflow.step.ScatterStep.run",
    "streamflow.workflow.step.GatherStep.run",
    "streamflow.workflow.step.BaseStep.terminate",
    "streamflow.workflow.step.BaseStep._persist_token",
    "streamflow.core.workflow.Port.get",
    "streamflow.core.workflow.Port.put",
)


# ------------------------------------------------------------------ harness steps


class LoopWhen(CWLLoopConditionalStep):
    """The real loop condition step; only the JavaScript evaluation is replaced: i < limit
    (limit = a constant of the graph, or the loop variable j when the graph carries one)."""

    def __init__(self, name, workflow, limit=None):
        super().__init__(name, workflow, expression="$(inputs.i < limit)")
        self.limit = limit
        self.evaluations = 0

    async def _eval(self, inputs):
        self.evaluations += 1
        if self.evaluations > 40:
            raise RuntimeError("loop condition evaluated more than 40 times")
        with ResumedTracing():  # the only place (with Body and the oracle) where symbolic values are read
            lim = self.limit if self.limit is not None else inputs["j"].value
            if inputs["i"].value < lim:
                return True
            return False


class Body(Transformer):
    """Loop body: o = i + 1, the tag is left alone (<prefix>.<k>)."""

    async def transform(self, inputs):
        with ResumedTracing():
            v = inputs["i"].value + 1
        return {"o": Token(value=v, tag=get_tag(inputs.values()))}


class Collector(Transformer):
    """Stand-in for the collector chain the translator appends to every workflow output
    (CWLTokenTransformer -> ScheduleStep -> CWLTransferStep): forwards the token."""

    async def transform(self, inputs):
        t = inputs["o"]
        return {"o": t.update(t.value)}


class _Loop(DetLoop):
    """DetLoop whose symbolic choices are armed by an event of the run (`trigger`, a predicate over
    the concrete port state, evaluated at every choice point) and then skip `delay` choice points:
    FIFO before, the K symbolic choices, FIFO afterwards. Only the K symbolic picks run traced."""

    def __init__(self, choices, trigger=None, delay=0):
        super().__init__(choices=[])
        self._held = list(choices)
        self._trigger = trigger
        self._delay = delay
        self._armed = False
        self.points = 0  # choice points seen so far
        self.armed_at = None

    def _pick(self):
        if len(self._ready) > 1:
            self.points += 1
            if not self._armed and (self._trigger is None or self._trigger()):
                if self._delay > 0:
                    self._delay -= 1
                else:
                    self._armed = True
                    self.armed_at = self.points - 1
                    self._choices = self._held
                    self._choice_pos = 0
            if self._armed and self._choice_pos < len(self._choices):
                with ResumedTracing():
                    return DetLoop._pick(self)
        return self._ready.pop(0)


def _trigger(g, phase):
    """phase = (kind, k, delay). kind "S": from the first choice point of the run | "B": the loop
    combinator has emitted >= k tokens (the k-th iteration is starting) | "M": k iteration-termination
    markers reached the loop output step's input | "O": k loop outputs emitted | "T": the loop combinator
    step has terminated (termination cascade)."""
    kind, k = phase[0], phase[1]
    if kind == "S":
        return None
    if kind == "B":
        return lambda: len(g.B["i"].token_list) >= k
    if kind == "M":
        return lambda: sum(1 for t in g.D.token_list if isinstance(t, IterationTerminationToken)) >= k
    if kind == "O":
        return lambda: len(g.F.token_list) >= k
    if kind == "T":
        return lambda: g.comb_step.terminated
    raise ValueError(phase)


# ------------------------------------------------------------------ graph


class Graph:
    pass


def build_loop(wf, method_all, two_vars, limit, scatter, collector=True):
    """Wire the loop sub-graph (see module docstring). Returns a Graph with the interesting ports/steps."""
    g = Graph()
    P = wf.create_port
    variables = ["i", "j"] if two_vars else ["i"]
    src = {}
    # ---- around: workflow inputs (and scatter)
    if scatter:
        g.inp_i = P(name="IN_i")
        g.scatter = wf.create_step(cls=ScatterStep, name="/l/i-scatter")
        g.scatter.add_input_port("i", g.inp_i)
        src["i"] = P(name="SRC_i")
        g.scatter.add_output_port("i", src["i"])
    else:
        g.inp_i = src["i"] = P(name="SRC_i")
    if two_vars:
        g.inp_j = src["j"] = P(name="SRC_j")
    # ---- _create_loop_condition
    comb = LoopCombinator(workflow=wf, name="/l-loop-combinator")
    A = {}
    for v in variables:
        fw = wf.create_step(cls=ForwardTransformer, name="/l/" + v + "-input-forward-transformer")
        fw.add_input_port(v, src[v])
        A[v] = P(name="A_" + v)
        fw.add_output_port(v, A[v])
        comb.add_item(v)
    g.comb_step = wf.create_step(cls=LoopCombinatorStep, name="/l-loop-combinator", combinator=comb)
    B = {}
    for v in variables:
        g.comb_step.add_input_port(v, A[v])
        B[v] = P(name="B_" + v)
        g.comb_step.add_output_port(v, B[v])
    g.when = wf.create_step(cls=LoopWhen, name="/l-loop-when", limit=None if two_vars else limit)
    C = {}
    for v in variables:
        g.when.add_input_port(v, g.comb_step.get_output_port(v))
        C[v] = P(name="C_" + v)
        g.when.add_output_port(v, C[v])
    # ---- "Process loop outputs"
    term_comb = LoopTerminationCombinator(workflow=wf, name="/l-loop-termination-combinator")
    g.terminator = wf.create_step(cls=CombinatorStep, name="/l-loop-terminator", combinator=term_comb)
    for v, port in g.comb_step.get_input_ports().items():
        g.terminator.add_output_port(v, port)
        term_comb.add_output_item(v)
    out_fw = wf.create_step(cls=ForwardTransformer, name="/l/o-output-forward-transformer")
    E = P(name="E_o")
    out_fw.add_input_port("o", E)
    D = P(name="D_o")
    out_fw.add_output_port("o", D)
    g.loop_out = wf.create_step(cls=CWLLoopOutputAllStep if method_all else CWLLoopOutputLastStep, name="/l/o-loop-output")
    g.loop_out.add_input_port("o", out_fw.get_output_port())
    g.when.add_skip_port("o", out_fw.get_output_port())
    F = P(name="F_o")
    g.loop_out.add_output_port("o", F)
    g.terminator.add_input_port("o", F)
    term_comb.add_item("o")
    # ---- "Connect loop outputs to loop inputs": loop = {i: o}; j has no loop source
    loop_input_ports = {"i": D}
    for v in variables:
        bp = wf.create_step(cls=ForwardTransformer, name="/l/" + v + "-back-propagation-transformer")
        bp.add_input_port(v, loop_input_ports.get(v, g.when.get_output_port(v)))
        bp.add_output_port(v, g.comb_step.get_input_port(v))
    # ---- the body (the translator's recursive translation of `run`): reads the loop condition's outputs
    g.body = wf.create_step(cls=Body, name="/l")
    for v in variables:
        g.body.add_input_port(v, C[v])
    g.body.add_output_port("o", E)
    # ---- around: gather, collector, workflow output
    last = F
    if scatter:
        ga = wf.create_step(cls=GatherStep, name="/l/o-gather", size_port=g.scatter.get_size_port())
        ga.add_input_port("o", F)
        last = P(name="G_o")
        ga.add_output_port("o", last)
    if collector:
        co = wf.create_step(cls=Collector, name="/o-collector")
        co.add_input_port("o", last)
        last = P(name="OUT_o")
        co.add_output_port("o", last)
    wf.output_ports["o"] = last.name
    g.A, g.B, g.C, g.D, g.E, g.F = A, B, C, D, E, F
    return g


# ------------------------------------------------------------------ driver + oracle


class _Clock:  # the executor only stores time.time_ns() in the database
    n = 0

    @classmethod
    def time_ns(cls):
        cls.n += 1
        return cls.n


def _why(msg):
    if _EXPLAIN:
        print("C06 graph violated: " + msg)
    return False


def _not_term(port):
    return [t for t in port.token_list if not isinstance(t, TerminationToken)]


def _run(method_all, two_vars, starts, limit, counts, choices, scatter, collector, phase, info=None):
    """counts[k]: concrete iteration count of instance k (realised by the caller: limit - starts[k] clipped at 0)."""
    ctx = StubContext()
    wf = new_workflow(ctx)
    db = ctx.database
    names = [0]

    def _rn():
        names[0] += 1
        return "name-" + str(names[0])

    orig_rn, orig_time = cu.random_name, ex_mod.time
    cu.random_name, ex_mod.time = _rn, _Clock
    loop = _Loop(choices, delay=phase[2])
    if info is not None:
        info.append(loop)
    try:
        with loop:
            g = build_loop(wf, method_all, two_vars, limit, scatter, collector)
            loop._trigger = _trigger(g, phase)
            loop.run_until_complete(wf.save(db))
            if scatter:
                toks = [ListToken(value=[Token(value=s) for s in starts], tag="0")]
                prefixes = ["0." + str(k) for k in range(len(starts))]
            else:
                toks = [Token(value=starts[0], tag="0")]
                prefixes = ["0"]
            feeds = [(g.inp_i, toks)]
            if two_vars:
                feeds.append((g.inp_j, [Token(value=limit, tag="0")]))
            for port, ts in feeds:
                for t in ts:
                    loop.run_until_complete(t.save(db, port_id=port.persistent_id))
                    port.put(t)
                port.put(TerminationToken(Status.COMPLETED))
            ex = StreamFlowExecutor(wf)
            try:
                result = loop.run_until_complete(ex.run())
            except WorkflowExecutionException as e:
                return _why("executor raised " + repr(e) + " statuses=" + repr({s.name: s.status.name for s in wf.steps.values()}))
            except Deadlock:
                return _why("deadlock: executor pending, nothing ready; not terminated: " + repr([s.name for s in wf.steps.values() if not s.terminated]))
            except Livelock:
                return _why("livelock")
            loop.run_until_quiescent()
            if loop.pending_tasks():
                return _why("tasks still pending after the executor returned")
            for s in wf.steps.values():
                if not s.terminated or s.status not in (Status.COMPLETED, Status.SKIPPED):
                    return _why("step " + s.name + " terminated=" + str(s.terminated) + " status=" + s.status.name)
                for p in s.get_output_ports().values():
                    if not p.token_list or not isinstance(p.token_list[-1], TerminationToken):
                        return _why("port " + p.name + " of " + s.name + " does not end with a TerminationToken")
            # --- the loop output port: exactly one token per loop instance, all before its (single) TerminationToken
            fl = g.F.token_list
            if len(fl) != len(prefixes) + 1 or not isinstance(fl[-1], TerminationToken):
                return _why("loop output port: " + repr([(type(t).__name__, t.tag) for t in fl]))
            if sorted(t.tag for t in fl[:-1]) != sorted(prefixes):
                return _why("loop output tags " + repr([t.tag for t in fl[:-1]]))
            # --- the loop ran the body exactly counts[k] times per instance, iteration tags prefix.0 .. prefix.(n-1)
            for k, prefix in enumerate(prefixes):
                n = counts[k]
                body_tags = [t.tag for t in _not_term(g.E) if t.tag.rsplit(".", 1)[0] == prefix]
                if sorted(body_tags) != sorted(prefix + "." + str(x) for x in range(n)):
                    return _why("body outputs of instance " + prefix + ": " + repr(body_tags))
                marks = [t.tag for t in g.D.token_list if isinstance(t, IterationTerminationToken) and t.tag.rsplit(".", 1)[0] == prefix]
                if marks != [prefix + "." + str(n)]:
                    return _why("iteration termination markers of instance " + prefix + ": " + repr(marks))
            # --- values (symbolic): compared with the tracer on
            with ResumedTracing():
                exp = []
                for k in range(len(prefixes)):
                    n = counts[k]
                    if method_all:
                        exp.append([starts[k] + x + 1 for x in range(n)])
                    else:
                        exp.append(None if n == 0 else starts[k] + n)
                expected = {"o": exp if scatter else exp[0]}
                if result != expected:
                    return _why("result " + repr(result) + " expected " + repr(expected))
            return True
    finally:
        cu.random_name, ex_mod.time = orig_rn, orig_time


START = ("S", 0, 0)


def prop_loop_graph(method_all, two_vars, starts, limit, choices, scatter=False, collector=True, phases=(START,), ph=0, maxn=4, info=None) -> bool:
    """Run the loop graph; starts[k] = initial value of loop instance k (one instance, tag 0, without
    scatter; instances 0.0, 0.1, .. with scatter); the loop runs while i < limit.
    choices: symbolic scheduling choices for the choice points that follow the event phases[ph]
    (ph: symbolic selector); the run is FIFO before and after them."""
    # realise the iteration counts (one path per count vector) and the window; the values stay symbolic
    counts = []
    for s in starts:
        d = limit - s
        n = None
        if d <= 0:
            n = 0
        else:
            for x in range(1, maxn + 1):
                if d == x:
                    n = x
        if n is None:
            return True  # outside the bound (excluded by the precondition)
        counts.append(n)
    phase = None
    for idx in range(len(phases)):
        if ph == idx:
            phase = phases[idx]
    if phase is None:
        return True  # excluded by the precondition
    try:
        if _TRACE_ALL:
            return _run(method_all, two_vars, starts, limit, counts, choices, scatter, collector, phase, info)
        with NoTracing():
            return _run(method_all, two_vars, starts, limit, counts, choices, scatter, collector, phase, info)
    except Prune:
        return True


def sizing(method_all, two_vars, starts, limit, scatter=False, collector=True, phase=START, maxn=12):
    """native helper: (verdict, number of choice points of the FIFO run, choice point at which `phase` armed)."""
    info = []
    ok = prop_loop_graph(method_all, two_vars, starts, limit, [], scatter, collector, (phase,), 0, maxn, info)
    return ok, info[0].points, info[0].armed_at


# ------------------------------------------------------------------ obligations

IMPORTS = "from harness.C06_graph import *"
GROUP = "loop graph (executor level): one output per loop instance, last value / all values in iteration order"


_PHASE_WORDS = {
    "S": "the first choice point of the executor run (step start-up, consumer registration order)%.0s",
    "B": "the loop combinator emitting its token #%d (an iteration starts)",
    "M": "iteration-termination marker #%d reaching the loop output step's input (a loop instance exits)",
    "O": "loop output #%d being emitted",
    "T": "the termination of the loop combinator step (termination cascade)%.0s",
}


def _phase_words(ph):
    return _PHASE_WORDS[ph[0]] % ph[1] + (" + %d choice points" % ph[2] if ph[2] else "")


def _graph_spec(name, method_all, two_vars, ninst, scatter, maxn, K, phases, cond, first=None, fixed=None):
    """fixed: None -> starts/limit symbolic with 0..maxn iterations; (starts, limit) -> concrete values.
    phases: the window of K symbolic choices starts at one of these events (symbolic selector when several)."""
    cs = ["c" + str(i) for i in range(K)]
    sym = cs if first is None else cs[1:]
    pre = []
    if fixed is None:
        starts = ["s" + str(k) for k in range(ninst)]
        lim = "lim"
        params = starts + ["lim"]
        pre += [s + " - 1 <= lim <= " + s + " + " + str(maxn) for s in starts]
        vals = "initial value(s) and limit symbolic with limit - start in -1..%d per instance (0..%d iterations each)" % (maxn, maxn)
    else:
        starts = [str(x) for x in fixed[0]]
        lim = str(fixed[1])
        params = []
        vals = "initial value(s) %s, limit %s (%s iterations)" % (", ".join(starts), lim, ", ".join(str(max(0, fixed[1] - x)) for x in fixed[0]))
    if len(phases) > 1:
        params.append("ph")
        pre.append("0 <= ph <= %d" % (len(phases) - 1))
        sel = "ph"
    else:
        sel = "0"
    params += sym
    pre += ["0 <= " + c + " <= 5" for c in sym]
    chs = ([str(first)] if first is not None else []) + sym
    call = "prop_loop_graph(%r, %r, [%s], %s, [%s], scatter=%r, phases=%r, ph=%s, maxn=%d)" % (method_all, two_vars, ", ".join(starts), lim, ", ".join(chs), scatter, tuple(phases), sel, maxn)
    m = "all" if method_all else "last"
    shape = ("scatter of %d element(s) around the loop (instances %s)" % (ninst, ", ".join("0." + str(k) for k in range(ninst)))) if scatter else "one loop instance (tag 0)"
    where = _phase_words(phases[0]) if len(phases) == 1 else "one of these events (symbolic selector): " + "; ".join(_phase_words(p) for p in phases)
    return Spec(
        name="graph_%s_%s_K%d" % (name, m, K) + ("" if first is None else "_f%d" % first),
        group=GROUP,
        source=mk_source(IMPORTS, ", ".join(x + ": int" for x in params), pre, call),
        cond=cond,
        path=120,
        bound="translator-wired loop graph run by StreamFlowExecutor, outputMethod=%s, %s, %s; %s; K=%d consecutive scheduling choice points are symbolic (each among up to 6 ready callbacks%s), "
        "FIFO before and after; the window starts at %s"
        % (m, "loop variables i (loop source: the body output) and j (the limit, carried along)" if two_vars else "loop variable i", shape, vals, K, "" if first is None else "; partition: the first choice = %d" % first, where),
        symbolic=("%d initial value(s), limit, " % ninst if fixed is None else "") + ("window selector, " if len(phases) > 1 else "") + "%d scheduling choices" % len(sym),
        targets=T_GRAPH,
    )


def graph_specs(tier: str):
    quick = tier == "quick"
    out = []
    maxn = 3 if quick else 4
    cond = 900 if quick else 3000

    def add(name, method_all, two_vars, ninst, scatter, phases, K, fixed=None, mx=None, split=False):
        if not split:
            out.append(_graph_spec(name, method_all, two_vars, ninst, scatter, mx or maxn, K, phases, cond, fixed=fixed))
        else:
            for first in range(6):  # partition on the first symbolic choice
                out.append(_graph_spec(name, method_all, two_vars, ninst, scatter, mx or maxn, K, phases, cond, first=first, fixed=fixed))

    def mid(delays=(0,)):
        kinds = [("B", 1), ("B", 2), ("M", 1), ("O", 1), ("T", 1)]
        return [(k, n, d) for (k, n) in kinds for d in delays]

    if quick:
        for method_all in (False, True):
            add("1inst_start", method_all, False, 1, False, [START], 2)
            add("1inst_mid", method_all, False, 1, False, mid(), 3)
        add("2vars_start", False, True, 1, False, [START], 2)
        add("2vars_mid", True, True, 1, False, [("B", 1, 0), ("M", 1, 0), ("T", 1, 0)], 3)
        add("scatter1_mid", False, False, 1, True, mid(), 3)
        add("scatter2_start", True, False, 2, True, [START], 2, mx=2)
        for method_all in (False, True):
            add("scatter2_mid", method_all, False, 2, True, [("B", 1, 0), ("B", 3, 0), ("M", 1, 0), ("M", 2, 0), ("O", 1, 0), ("T", 1, 0)], 2, mx=2)
        long_ph = [("B", 10, 0), ("B", 11, 0), ("M", 1, 0)]
        for method_all in (False, True):
            add("long11", method_all, False, 1, False, long_ph, 3, fixed=([0], 11), mx=11)
        add("long11x2", True, False, 2, True, [("B", 12, 0), ("M", 1, 0), ("M", 2, 0)], 3, fixed=([0, 9], 11), mx=11)
        return out
    # ---- thorough: 0..4 iterations, K = 4 inside the loop, K = 3 at start-up (partitioned), windows shifted by 0/3/6 choice points
    for method_all in (False, True):
        add("1inst_start", method_all, False, 1, False, [START], 3, split=True)
        add("1inst_start+2", method_all, False, 1, False, [("S", 0, 2)], 3)
        for d in (0, 3, 6):
            add("1inst_mid+%d" % d, method_all, False, 1, False, mid((d,)), 4)
        add("2vars_start", method_all, True, 1, False, [START], 3, split=True)
        for ph in mid((0, 4)):  # one obligation per window (about 2000 paths each)
            add("2vars_%s%d+%d" % ph, method_all, True, 1, False, [ph], 4)
        add("scatter1_start", method_all, False, 1, True, [START], 3)
        for ph in mid((0, 4)):
            add("scatter1_%s%d+%d" % ph, method_all, False, 1, True, [ph], 4)
        add("scatter2_start", method_all, False, 2, True, [START], 2, mx=3)
        for ph in [("B", 1, 0), ("B", 2, 0), ("B", 3, 0), ("M", 1, 0), ("M", 2, 0), ("O", 1, 0), ("O", 2, 0), ("T", 1, 0)]:
            add("scatter2_%s%d" % (ph[0], ph[1]), method_all, False, 2, True, [ph], 3, mx=3)
        long_ph = [("B", 9, 0), ("B", 10, 0), ("B", 11, 0), ("B", 12, 0), ("M", 1, 0), ("T", 1, 0)]
        add("long11", method_all, False, 1, False, long_ph, 4, fixed=([0], 11), mx=11)
        add("long12", method_all, False, 1, False, long_ph, 4, fixed=([0], 12), mx=12)
        add("long11x2", method_all, False, 2, True, [("B", 12, 0), ("B", 13, 0), ("M", 1, 0), ("M", 2, 0), ("O", 1, 0)], 4, fixed=([0, 9], 11), mx=11)
    return out
