"""C32 — remapping CWL File/Directory values between directories is lossless.

Real code executed symbolically: streamflow.cwl.utils.remap_token_value,
remap_path, get_token_class (and, below them, urllib.parse.urlsplit/unquote/
quote, os.path.relpath, posixpath.join).

Every obligation builds a CWL value from solver-owned integers (name length and
alphabet indexes), remaps it old->new and back with the real code and compares
with values built by the *same* constructor for the other directory:

  round trip :  remap(remap(v(old), old->new), new->old) == v(old)       (exact)
  forward    :  remap(v(old), old->new) denotes v(new)                   (file://
                locations are compared by the file they denote, i.e. after
                percent-decoding, the way get_path_from_token reads them)

The forward half is what makes "recursing through secondaryFiles, listings,
arrays and records" observable: a remap that skips a nested File passes every
round trip.

The name x directory space is partitioned into input CLASSES, one obligation
each, so that a defect in one class (percent signs, characters that a URI
percent-escapes) does not mask the verdict of the others. Inside one
obligation the solver owns the name; the value shapes and directory pairs of
the class are a concrete conjunction evaluated on every path.
"""

from __future__ import annotations

import posixpath
import urllib.parse

from lib.runner import Spec, mk_source

LEVEL = "other"
EXPLANATION = (
    "Bounded symbolic checking of remap_token_value/remap_path: the relative name is assembled from "
    "solver-owned indexes into a fixed alphabet (plain, digits that complete a percent escape, a path "
    "separator, space, non-ASCII, ':', '%') with solver-owned length; directory pairs (siblings, nested, "
    "common prefix, trailing slash, space, non-ASCII, '%'), forms (path, file:// location, both, foreign "
    "scheme) and value shapes (File, Directory with listing, secondaryFiles, array, record, non-file) are "
    "enumerated by the generator. The solver owns the enumeration of the name space and reports its exhaustion."
)
ASSUMPTIONS = [
    "names are concatenations of 1..3 (quick) / 1..4 (thorough) elements of ['a','2','5','/b',' ','é',':','%'] "
    "not starting with '/b' (so the path below old_dir is normalised: no empty, '.' or '..' component); "
    "longer names and other characters are outside the bound",
    "every File/Directory path is strictly below old_dir (the value old_dir itself, which remap_path maps to "
    "'<new_dir>/.', is outside the claim)",
    "a file:// location is the percent-encoded URI of its path, 'file://' + urllib.parse.quote(path), as "
    "streamflow.cwl.utils builds it and as CWL loaders deliver it; non-canonical URIs (literal space, "
    "bare '%', 'file:/x', 'file://host/x') are outside the claim",
    "directories come from a fixed list of 10 (old, new) pairs: siblings, nested both ways, common string "
    "prefix, trailing slashes, a pair colliding with the alphabet, space, non-ASCII, '%' in old, '%' in new; "
    "old_dir/new_dir are absolute, normalised plain paths (never URIs)",
    "path_processor is posixpath (os.path is the same module on the POSIX hosts StreamFlow runs on)",
    "the forward half is not asserted for a plain path containing ':/' (a directory whose name ends with ':'): "
    "remap_path classifies such a string as a URL with an empty scheme and returns it unchanged; the round "
    "trip is still asserted for it (and holds trivially)",
    "the full directory list is crossed with the leaf File (all names); the composite shapes (listing, "
    "secondaryFiles, array, record) are checked with names of 1..2 elements and one nested directory pair in "
    "the quick tier, 1..4 elements and four pairs in the thorough tier (remap_token_value handles every nested "
    "File/Directory with the same remap_path call, which is what these obligations establish); a File that "
    "carries both path and location is checked with all names on the plain sibling pair",
    "for other URL schemes and non-file values the claim is one remap old->new returning a value equal to "
    "the input (the way back is the same code with the directory arguments swapped, which these branches "
    "never read)",
    "fields other than path/location/secondaryFiles/listing (basename, size, checksum) must be preserved; "
    "'dirname' is not part of the generated values (remap_token_value does not rewrite it)",
    "in-place mutation of the input mapping is neither required nor forbidden (the code updates File "
    "mappings in place); every comparison is against a freshly built value",
    "urllib.parse.unquote and urllib.parse.quote (stdlib, called by remap_path) run natively, outside "
    "CrossHair's tracer, when their argument is a concrete str — always the case here, every path carries "
    "concrete text; same code, same results, only CrossHair's slow bytes/bytearray model is bypassed",
    "the harness pre-computes urllib.parse.quote of the alphabet elements and directories at import time "
    "(quote is character-wise, asserted at import), so the expected URIs are built by concatenation",
]

# ------------------------------------------------- stdlib calls on concrete text


def _native_on_concrete(fn):
    """`fn(text)` executed by the interpreter without CrossHair's tracer when `text` is a concrete str.

    CrossHair models bytes/bytearray even for concrete data, which makes urllib.parse.unquote ~40 ms per
    call on text that really contains escapes (measured). Every path of this harness carries concrete
    strings (the solver only picks alphabet indexes), so nothing symbolic can reach these two functions:
    running the very same stdlib code untraced changes no result. A symbolic argument falls through to
    the traced original.
    """
    from crosshair.tracers import NoTracing

    def wrapper(string, *args, **kwargs):
        if not args and not kwargs:
            with NoTracing():
                if type(string) is str:
                    return fn(string)
        return fn(string, *args, **kwargs)

    wrapper._c32_native = True
    wrapper.__wrapped__ = fn
    return wrapper


for _name in ("unquote", "quote"):
    if not getattr(getattr(urllib.parse, _name), "_c32_native", False):
        setattr(urllib.parse, _name, _native_on_concrete(getattr(urllib.parse, _name)))

# ------------------------------------------------------------------ the space

# ordered so that the input classes are index ranges (cheap preconditions)
ALPHABET = ["a", "2", "5", "/b", " ", "é", ":", "%"]
N_UNRES = 4  # indexes 0..3: identical in a plain path and in a URI ('2','5' can complete a '%' escape)
N_NOPCT = 7  # indexes 4..6: ' ' 'é' ':' are percent-escaped in a URI; index 7 is the literal '%'
I_SLASH, I_PCT = 3, 7
# (plain, percent-encoded) per element
PAIRS = [(a, urllib.parse.quote(a)) for a in ALPHABET]
assert [q for _, q in PAIRS] == ["a", "2", "5", "/b", "%20", "%C3%A9", "%3A", "%25"]

# (old_dir, new_dir)
DIRS = [
    ("/old", "/new"),  # 0 siblings
    ("/old", "/old/sub"),  # 1 new nested in old
    ("/old/sub", "/old"),  # 2 old nested in new
    ("/old", "/older"),  # 3 siblings sharing a string prefix
    ("/old/", "/new/"),  # 4 trailing slashes
    ("/b", "/a"),  # 5 collide with alphabet elements 'a' and '/b'
    ("/old", "/new dir"),  # 6 space in new
    ("/d é", "/old"),  # 7 space + non-ASCII in old
    ("/o%20ld", "/new"),  # 8 percent escape look-alike in old
    ("/old", "/n%25ew"),  # 9 percent escape look-alike in new
]
D_UNRES = (0, 1, 2, 3, 4, 5)
D_ESC = (6, 7)
D_PCT = (8, 9)


def _norm(d: str) -> str:
    return d[:-1] if len(d) > 1 and d.endswith("/") else d


# per pair: ((old plain, old quoted), (new plain, new quoted)) without trailing slash
BASES = [tuple((_norm(x), urllib.parse.quote(_norm(x))) for x in pair) for pair in DIRS]
assert urllib.parse.quote("/d é/a b%") == BASES[7][0][1] + "/a%20b%25"  # quote is character-wise

SCHEMES = ["http://example.org", "https://h:8080", "s3://bucket", "ftp://u@h"]

SHAPES = ("file", "listing", "secondary", "array", "record")


_HIDDEN = [False]


def _rel(n, idx):
    """(name, percent-encoded name) for the first n alphabet indexes. In hidden mode every path
    component of the name gets a leading '.' ('a/b' -> '.a/.b': hidden files and directories; '.' is
    unreserved in a URI; no '.' or '..' component can arise)."""
    rel, qrel = "", ""
    for k in range(n):
        a, q = PAIRS[idx[k]]
        if _HIDDEN[0]:
            a, q = a.replace("/", "/."), q.replace("/", "/.")
        rel = rel + a
        qrel = qrel + q
    if _HIDDEN[0]:
        rel, qrel = "." + rel, "." + qrel
    return rel, qrel


def _fd(cls: str, form: str, p: str, q: str) -> dict:
    """A File/Directory object for the file at plain path `p` (`q` = its percent-encoded form)."""
    v = {"class": cls, "basename": posixpath.basename(p)}
    if form in ("path", "both"):
        v["path"] = p
    if form in ("location", "both"):
        v["location"] = "file://" + q
    return v


def make_value(shape: str, form: str, base, name):
    """The CWL value of `shape` whose files live under directory base; base/name are (plain, quoted)."""
    p = base[0] + "/" + name[0]
    q = base[1] + "/" + name[1]
    if shape == "file":
        v = _fd("File", form, p, q)
        v["size"] = 3
        v["checksum"] = "sha1$da39"
        return v
    if shape == "listing":
        v = _fd("Directory", form, p, q)
        sub = _fd("Directory", form, p + "/sub", q + "/sub")
        sub["listing"] = [_fd("File", form, p + "/sub/y", q + "/sub/y")]
        v["listing"] = [_fd("File", form, p + "/x.txt", q + "/x.txt"), sub]
        return v
    if shape == "secondary":
        v = _fd("File", form, p, q)
        d = _fd("Directory", form, p + "_d", q + "_d")
        d["listing"] = [_fd("File", form, p + "_d/k", q + "_d/k")]
        v["secondaryFiles"] = [_fd("File", form, p + ".idx", q + ".idx"), d]
        return v
    if shape == "array":
        return [_fd("File", form, p, q), "keep", 7, None, [_fd("Directory", form, p + ".2", q + ".2")], []]
    if shape == "record":
        return {
            "in": _fd("File", form, p, q),
            "n": 5,
            "s": "/old/keep",  # a plain string is not a File: must not be remapped
            "flag": True,
            "inner": {"deep": [_fd("Directory", form, p + ".d", q + ".d")], "none": None},
        }
    raise ValueError(shape)


def _denotes(got, want) -> bool:
    """`got` equals `want`, file:// locations being compared by the file they denote."""
    if isinstance(want, dict):
        if not isinstance(got, dict) or len(got) != len(want):
            return False
        for k, w in want.items():
            if k not in got:
                return False
            g = got[k]
            if k == "location" and isinstance(w, str) and w.startswith("file://"):
                if g == w:
                    continue
                if not (isinstance(g, str) and g.startswith("file://")):
                    return False
                if urllib.parse.unquote(g[7:]) != urllib.parse.unquote(w[7:]):
                    return False
            elif not _denotes(g, w):
                return False
        return True
    if isinstance(want, list):
        if not isinstance(got, list) or len(got) != len(want):
            return False
        for g, w in zip(got, want):
            if not _denotes(g, w):
                return False
        return True
    return type(got) is type(want) and got == want


def _plain_url_like(v) -> bool:
    """True iff some plain `path` in `v` contains ':/' (remap_path treats it as a URL)."""
    if isinstance(v, list):
        for x in v:
            if _plain_url_like(x):
                return True
        return False
    if isinstance(v, dict):
        if v.get("class") in ("File", "Directory") and ":/" in v.get("path", ""):
            return True
        for x in v.values():
            if _plain_url_like(x):
                return True
    return False


# ----------------------------------------------------------------- properties


def _check(shape, form, d, name, report=None) -> bool:
    from streamflow.cwl.utils import remap_token_value

    old, new = DIRS[d]
    bold, bnew = BASES[d]
    fwd = remap_token_value(posixpath, old, new, make_value(shape, form, bold, name))
    want_fwd = make_value(shape, form, bnew, name)
    # evaluated before the way back: File mappings are updated in place
    fwd_asserted = not _plain_url_like(want_fwd)  # see ASSUMPTIONS
    fwd_ok = _denotes(fwd, want_fwd)
    if report is not None:
        report["forward"] = repr(fwd)
        report["forward_expected"] = repr(want_fwd)
    back = remap_token_value(posixpath, new, old, fwd)
    orig = make_value(shape, form, bold, name)
    if report is not None:
        report.update(back=repr(back), original=repr(orig), roundtrip_ok=back == orig,
                      forward_ok=fwd_ok, forward_asserted=fwd_asserted)
    if back != orig:
        return False
    return fwd_ok or not fwd_asserted


def prop_remap(shapes, form: str, dset, n, idx) -> bool:
    """For the (symbolic) name: every shape in `shapes` x every directory pair in `dset`."""
    name = _rel(n, idx)
    for d in dset:
        for shape in shapes:
            if not _check(shape, form, d, name):
                return False
    return True


def prop_remap_hidden(shapes, form: str, dset, n, idx) -> bool:
    """prop_remap for dot-prefixed names (hidden files / directories)."""
    _HIDDEN[0] = True
    try:
        return prop_remap(shapes, form, dset, n, idx)
    finally:
        _HIDDEN[0] = False


def make_foreign(kind: int, url: str):
    f = {"class": "File", "location": url, "basename": "x"}
    if kind == 0:
        return f
    if kind == 1:
        return {"class": "Directory", "location": url, "listing": [{"class": "File", "location": url + "/in"}]}
    if kind == 2:
        f["secondaryFiles"] = [{"class": "File", "location": url + ".idx"}]
        return [f, {"r": {"class": "Directory", "location": url}}]
    raise ValueError(kind)


def prop_foreign(combos, dset, n, idx) -> bool:
    """Locations with another URL scheme are left untouched."""
    from streamflow.cwl.utils import remap_token_value

    rel = _rel(n, idx)[0]
    for d in dset:
        old, new = DIRS[d]
        for kind, s in combos:
            url = SCHEMES[s] + _norm(old) + "/" + rel
            fwd = remap_token_value(posixpath, old, new, make_foreign(kind, url))
            if fwd != make_foreign(kind, url):
                return False
    return True


def make_nonfile(kind: int, p: str):
    if kind == 0:
        return p  # a string that happens to be a path under old_dir
    if kind == 1:
        return [p, 3, None, True, ["file://" + p], {}]
    if kind == 2:
        return {"path": p, "location": "file://" + p, "listing": [p]}  # no class: a record
    if kind == 3:
        return {"class": "Other", "path": p, "secondaryFiles": [{"x": p}]}
    if kind == 4:
        return {"a": {"b": [{"c": p, "n": 1}]}, "k": 2}
    raise ValueError(kind)


def prop_nonfile(kinds, dset, n, idx) -> bool:
    """Values that are not File/Directory objects are returned equal to the input."""
    from streamflow.cwl.utils import remap_token_value

    rel = _rel(n, idx)[0]
    for d in dset:
        old, new = DIRS[d]
        p = _norm(old) + "/" + rel
        for kind in kinds:
            fwd = remap_token_value(posixpath, old, new, make_nonfile(kind, p))
            if fwd != make_nonfile(kind, p):
                return False
    return True


def explain(shapes, form: str, dset, n, idx) -> str:
    """Native diagnostic for a counterexample of prop_remap (not used by the solver): paste the
    arguments of the prop_remap(...) call found in the replayed harness file."""
    name = _rel(n, idx)
    lines = [f"name={name[0]!r} form={form}"]
    for d in dset:
        for shape in shapes:
            rep: dict = {}
            if _check(shape, form, d, name, rep):
                continue
            lines.append(
                f"- dirs={DIRS[d]!r} shape={shape}: roundtrip_ok={rep['roundtrip_ok']} "
                f"forward_ok={rep['forward_ok']} forward_asserted={rep['forward_asserted']}\n"
                f"    original  {rep['original']}\n    forward   {rep['forward']}\n"
                f"    expected~ {rep['forward_expected']}\n    back      {rep['back']}"
            )
    return "\n".join(lines)


# ---------------------------------------------------------------- obligations

IMPORTS = "from harness.C32 import *\nimport streamflow.cwl.utils  # imported once, outside the traced paths"
TARGETS = (
    "streamflow.cwl.utils.remap_token_value",
    "streamflow.cwl.utils.remap_path",
    "streamflow.cwl.utils.get_token_class",
    "urllib.parse.urlsplit",
    "urllib.parse.unquote",
    "os.path.relpath",
    "posixpath.join",
)

_CLS_HI = {"unres": N_UNRES, "nopct": N_NOPCT, "esc": N_NOPCT, "any": len(ALPHABET), "pct": len(ALPHABET)}
_NAME_WORDS = {
    "any": "any elements",
    "nopct": "no '%' element",
    "pct": "at least one '%' element",
    "unres": "only 'a','2','5','/b' (nothing a URI would escape)",
    "esc": "no '%', at least one of ' ','é',':' (escaped in a URI)",
}


def _in_class(cls: str, name_idx) -> bool:
    hi = _CLS_HI[cls]
    if name_idx[0] == I_SLASH or any(i >= hi for i in name_idx):
        return False
    if cls == "esc":
        return any(i >= N_UNRES for i in name_idx)
    if cls == "pct":
        return any(i == I_PCT for i in name_idx)
    return True


def _count(k: int, cls: str, part=None) -> int:
    """Number of names in a class / partition (budgets and reporting only)."""
    import itertools

    c = 0
    for m in range(1, k + 1):
        for t in itertools.product(range(len(ALPHABET)), repeat=m):
            if (part is None or part[0] <= t[0] < part[1]) and _in_class(cls, t):
                c += 1
    return c


def _name_pre(k: int, cls: str, part=None):
    """(params, pre, index expression) for a name of class `cls`; `part` = range of the first index."""
    hi = _CLS_HI[cls]
    lo0, hi0 = (0, hi) if part is None else (part[0], min(part[1], hi))
    pre = [f"1 <= n <= {k}", f"{lo0} <= i0 < {hi0}"]
    if lo0 <= I_SLASH < hi0:
        pre.append(f"i0 != {I_SLASH}")
    for j in range(1, k):
        # unused positions are pinned to 0 so that they do not multiply the path tree
        pre += [f"0 <= i{j} < {hi}", f"(n > {j} or i{j} == 0)"]
    want = {"esc": f">= {N_UNRES}", "pct": f"== {I_PCT}"}.get(cls)
    if want is not None:
        alts = [f"i0 {want}"] + [f"(n > {j} and i{j} {want})" for j in range(1, k)]
        pre.append("(" + " or ".join(alts) + ")")
    idx = [f"i{j}" for j in range(k)]
    return ", ".join(f"{v}: int" for v in ["n"] + idx), pre, "[" + ", ".join(idx) + "]"


def _parts(cls: str, pieces: int):
    """Partition of the first index into `pieces` ranges (None = one obligation)."""
    if pieces <= 1:
        return [None]
    hi = _CLS_HI[cls]
    if pieces >= hi:
        return [(f, f + 1) for f in range(hi) if f != I_SLASH]
    cuts = [round(i * hi / pieces) for i in range(pieces + 1)]
    return [(cuts[i], cuts[i + 1]) for i in range(pieces) if cuts[i] < cuts[i + 1]]


def _bound_words(k, cls, part):
    w = f"name = 1..{k} elements of {ALPHABET} (first is not '/b'), class: {_NAME_WORDS[cls]}"
    if part is not None:
        w += f" (partition: first element in {ALPHABET[part[0]:part[1]]})"
    return w


def _remap_specs(k, pieces, tag, shapes, form, ncls, dset, dword, group, per_name):
    out = []
    for part in _parts(ncls, pieces):
        names = _count(k, ncls, part)
        if names == 0:
            continue
        params, pre, idx = _name_pre(k, ncls, part)
        key = f"{form}:{ncls}:{dword}"
        out.append(
            Spec(
                name=f"{tag}_{form}_{ncls}_{dword}" + ("" if part is None else f"_p{part[0]}"),
                group=group,
                source=mk_source(IMPORTS, params, pre, f"prop_remap({shapes!r}, {form!r}, {dset!r}, n, {idx})"),
                cond=max(300.0, names * per_name * 4),
                path=60,
                bound=f"shapes {shapes}, {form} form; {_bound_words(k, ncls, part)}; "
                f"for each (old_dir, new_dir) in {[DIRS[i] for i in dset]}",
                symbolic=f"name length + {k} alphabet indexes ({names} names); shapes and directory pairs "
                "are a concrete conjunction inside each path",
                targets=TARGETS,
                finding_key=lambda call, key=key: key,
            )
        )
    return out


# leaf classes: (form, name class, directory set, word, quick pieces) — pairwise disjoint; per form their
# union is {all names} x {all 10 directory pairs} (form 'both': x pair 0)
LEAF_CLASSES = [
    ("path", "nopct", D_UNRES + D_ESC, "dnopct", 3),
    ("path", "pct", D_UNRES + D_ESC, "dnopct", 1),
    ("path", "any", D_PCT, "dpct", 1),
    ("location", "unres", D_UNRES, "dplain", 1),
    ("location", "esc", D_UNRES, "dplain", 2),
    ("location", "nopct", D_ESC, "dspecial", 1),
    ("location", "pct", D_UNRES + D_ESC, "dnopct", 1),
    ("location", "any", D_PCT, "dpct", 1),
    ("both", "unres", (0,), "d0", 1),
    ("both", "esc", (0,), "d0", 1),
    ("both", "pct", (0,), "d0", 1),
]

# composite classes: (form, name class) — disjoint, union = all names, per form
COMPOSITE_CLASSES = [
    ("path", "nopct"),
    ("path", "pct"),
    ("location", "unres"),
    ("location", "esc"),
    ("location", "pct"),
]

FOREIGN = ((0, 0), (1, 1), (2, 2), (0, 3))  # (value kind, scheme)
FOREIGN_ALL = tuple((kind, s) for kind in range(3) for s in range(len(SCHEMES)))


def specs(tier: str):
    quick = tier == "quick"
    k = 3 if quick else 4
    out = []
    # 1. leaf File: all names x all directory pairs, per input class
    for form, ncls, dset, dword, pieces in LEAF_CLASSES:
        out += _remap_specs(
            k, pieces if quick else 8, "file", ("file",), form, ncls, dset, dword,
            f"leaf File, {form} form: round trip exact, forward result denotes the file under new_dir",
            0.04 + 0.02 * len(dset) * (2 if form == "both" else 1),
        )
    # 2. composite shapes: recursion through listing / secondaryFiles / arrays / records
    comp = SHAPES[1:]
    for form, ncls in COMPOSITE_CLASSES:
        if quick:
            out += _remap_specs(
                2, 1, "nested", comp, form, ncls, (1,), "d1",
                f"recursion through listing, secondaryFiles, arrays, records ({form} form)", 0.5,
            )
        else:
            for shape in comp:
                out += _remap_specs(
                    k, 8, shape, (shape,), form, ncls, (0, 1, 2, 4), "d0124",
                    f"recursion: {shape} ({form} form)", 0.5,
                )
    # 2b. dot-prefixed (hidden) components
    kh = 2 if quick else 3
    params, pre, idx = _name_pre(kh, "any", None)
    for form, dset in (("path", (0, 1, 7)), ("location", (0, 2, 6)), ("both", (0,))):
        out.append(
            Spec(
                name=f"hidden_{form}",
                group="hidden names: every path component of the name starts with '.'",
                source=mk_source(IMPORTS, params, pre, f"prop_remap_hidden({SHAPES!r}, {form!r}, {dset!r}, n, {idx})"),
                cond=600 if quick else 2400,
                path=60,
                bound=f"all shapes {SHAPES}, {form} form; name = 1..{kh} elements of {ALPHABET} (first is not '/b') with a '.' in front of every path component ('.a', '.a/.b', '. %'); "
                f"for each (old_dir, new_dir) in {[DIRS[i] for i in dset]}",
                symbolic=f"name length + {kh} alphabet indexes ({_count(kh, 'any', None)} names)",
                targets=TARGETS,
            )
        )
    # 3. other URL schemes untouched  /  4. non-file values untouched
    for part in _parts("any", 1 if quick else 8):
        names = _count(k, "any", part)
        params, pre, idx = _name_pre(k, "any", part)
        sfx = "" if part is None else f"_p{part[0]}"
        combos = FOREIGN if quick else FOREIGN_ALL
        out.append(
            Spec(
                name="foreign_scheme" + sfx,
                group="other URL schemes are left unchanged",
                source=mk_source(IMPORTS, params, pre, f"prop_foreign({combos!r}, (0,), n, {idx})"),
                cond=max(300.0, names * 0.3 * 4),
                path=60,
                bound=f"location = scheme prefix + old_dir + '/' + name for (value kind, prefix) in "
                f"{[(kd, SCHEMES[s]) for kd, s in combos]} (kind 0 File, 1 Directory+listing, 2 array/record/"
                f"secondaryFiles); {_bound_words(k, 'any', part)}; dirs {DIRS[0]}",
                symbolic=f"name length + {k} alphabet indexes ({names} names)",
                targets=TARGETS[:4],
            )
        )
        out.append(
            Spec(
                name="nonfile" + sfx,
                group="non-file values are left unchanged",
                source=mk_source(IMPORTS, params, pre, f"prop_nonfile((0, 1, 2, 3, 4), (0,), n, {idx})"),
                cond=max(300.0, names * 0.2 * 4),
                path=60,
                bound="non-file value kinds 0 path-like string, 1 array of scalars, 2 class-less record with "
                "path/location/listing keys, 3 record of another class, 4 nested records, each mentioning "
                f"old_dir + '/' + name; {_bound_words(k, 'any', part)}; dirs {DIRS[0]}",
                symbolic=f"name length + {k} alphabet indexes ({names} names)",
                targets=TARGETS[:3],
            )
        )
    return out
