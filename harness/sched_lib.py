"""Shared driver for the scheduler properties C10, C11, C12 (and C13b).

Runs the REAL DefaultScheduler (schedule/_process_target/_is_valid/_allocate_job/
_free_resources/_resolve_hardware_requirement/notify_status, DataLocalityPolicy,
Hardware arithmetic, data.utils.bind_mount_point) on a DetLoop against stub
connectors. A history is: for every job a *canonical prefix* that drives it to a
designated status (concrete per obligation), followed by L operations whose codes
are solver variables. Capacities, requirements and measured storage usages are
solver variables (exact integers).
"""

from __future__ import annotations

import posixpath

# status codes used by the harness
NONE, FIREABLE, RUNNING, COMPLETED, FAILED, RECOVERY, ROLLBACK = range(7)
ST_NAMES = ["NONE", "FIREABLE", "RUNNING", "COMPLETED", "FAILED", "RECOVERY", "ROLLBACK"]

# canonical history that brings a freshly scheduled job to a status
CANON = {
    NONE: [],
    FIREABLE: ["S"],
    RUNNING: ["S", "R"],
    COMPLETED: ["S", "R", "C"],
    FAILED: ["S", "R", "F"],
    RECOVERY: ["S", "R", "V"],
    ROLLBACK: ["S", "R", "V", "B"],
}
OPS = ["S", "R", "C", "F", "V", "B", "K"]  # schedule, RUNNING, COMPLETED, FAILED, RECOVERY, ROLLBACK, CANCELLED


class Usage:
    """Measured storage usage in MiB; `usage / 2**20` (bytes -> MiB in _free_resources) is exact."""

    def __init__(self, mib):
        self.mib = mib

    def __truediv__(self, d):
        return self.mib


class StubConnector:
    def __init__(self, deployment_name, locations, inner=None):
        self.deployment_name = deployment_name
        self._locations = locations  # name -> AvailableLocation
        self.connector = inner  # ConnectorWrapper-like attribute for stacked deployments

    async def get_available_locations(self, service=None):
        return dict(self._locations)


class StubDeploymentManager:
    def __init__(self, connectors):
        self.connectors = connectors

    def get_connector(self, name):
        return self.connectors.get(name)


class Req:
    """HardwareRequirement stub: eval(job) -> Hardware with the harness-chosen amounts."""

    def __init__(self, cores, memory, disk, mount, disk2=None):
        self.cores, self.memory, self.disk, self.mount, self.disk2 = cores, memory, disk, mount, disk2

    async def save(self, database):
        return {"type": "harness.sched_lib.Req", "params": {}}

    def eval(self, job):
        from streamflow.core.scheduling import Hardware, Storage

        storage = {"__outdir__": Storage(mount_point=self.mount, size=self.disk, paths={self.mount})}
        if self.disk2 is not None:
            # a second storage entry on the SAME mount point (CWL: outdir and tmpdir on one volume)
            storage["__tmpdir__"] = Storage(mount_point=self.mount, size=self.disk2, paths={self.mount})
        return Hardware(cores=self.cores, memory=self.memory, storage=storage)


class World:
    """A topology + the real scheduler + bookkeeping known to the harness only."""

    def __init__(self, topo, caps, slots=None, usage=0):
        from lib.detloop import DetLoop
        from lib.stubs import StubContext
        from streamflow.core.config import BindingConfig
        from streamflow.core.deployment import DeploymentConfig, Target
        from streamflow.core.scheduling import AvailableLocation, Hardware, Storage
        from streamflow.scheduling.scheduler import DefaultScheduler
        import streamflow.scheduling.scheduler as sched_mod

        self.topo = topo
        self.ctx = StubContext()
        self.loop = DetLoop()
        self.usage = usage
        self.caps = {}  # location name -> (cores, memory, disk) or None for slot-only
        self.slots = {}
        self.level = {}  # location name -> inner location name (stacked)
        mount = "/"

        def hw(c):
            return Hardware(cores=c[0], memory=c[1], storage={mount: Storage(mount_point=mount, size=c[2])})

        conns = {}
        if topo == "one":
            self.caps["l0"] = caps[0]
            locs = {"l0": AvailableLocation(name="l0", deployment="d", hostname="h0", hardware=hw(caps[0]))}
            conns["d"] = StubConnector("d", locs)
            self.targets = {"d": 1}
        elif topo == "two":
            self.caps["l0"], self.caps["l1"] = caps[0], caps[1]
            locs = {n: AvailableLocation(name=n, deployment="d", hostname=n, hardware=hw(self.caps[n])) for n in ("l0", "l1")}
            conns["d"] = StubConnector("d", locs)
            self.targets = {"d": 1}
        elif topo == "two_multi":
            self.caps["l0"], self.caps["l1"] = caps[0], caps[1]
            locs = {n: AvailableLocation(name=n, deployment="d", hostname=n, hardware=hw(self.caps[n])) for n in ("l0", "l1")}
            conns["d"] = StubConnector("d", locs)
            self.targets = {"d": 2}
        elif topo == "slots":
            self.caps["l0"] = None
            self.slots["l0"] = slots
            locs = {"l0": AvailableLocation(name="l0", deployment="d", hostname="h0", slots=slots)}
            conns["d"] = StubConnector("d", locs)
            self.targets = {"d": 1}
        elif topo == "stacked":
            # wrapper location w0 (deployment "w") stacked on base location b0 (deployment "b");
            # the wrapper's "/" storage is a bind of the base "/" storage
            self.caps["w0"], self.caps["b0"] = caps[0], caps[1]
            base = AvailableLocation(name="b0", deployment="b", hostname="hb", hardware=hw(caps[1]))
            whw = Hardware(cores=caps[0][0], memory=caps[0][1], storage={mount: Storage(mount_point=mount, size=caps[0][2], bind=mount)})
            wl = AvailableLocation(name="w0", deployment="w", hostname="hw", stacked=True, hardware=whw, wraps=base)
            conns["b"] = StubConnector("b", {"b0": base})
            conns["w"] = StubConnector("w", {"w0": wl}, inner=conns["b"])
            self.level["w0"] = "b0"
            self.targets = {"w": 1, "b": 1}
        elif topo == "stacked3":
            # three levels: v0 (deployment "v") stacked on w0 ("w") stacked on b0 ("b"); binds '/' -> '/' at both levels
            self.caps["v0"], self.caps["w0"], self.caps["b0"] = caps[0], caps[1], caps[2]
            base = AvailableLocation(name="b0", deployment="b", hostname="hb", hardware=hw(caps[2]))
            whw = Hardware(cores=caps[1][0], memory=caps[1][1], storage={mount: Storage(mount_point=mount, size=caps[1][2], bind=mount)})
            wl = AvailableLocation(name="w0", deployment="w", hostname="hw", stacked=True, hardware=whw, wraps=base)
            vhw = Hardware(cores=caps[0][0], memory=caps[0][1], storage={mount: Storage(mount_point=mount, size=caps[0][2], bind=mount)})
            vl = AvailableLocation(name="v0", deployment="v", hostname="hv", stacked=True, hardware=vhw, wraps=wl)
            conns["b"] = StubConnector("b", {"b0": base})
            conns["w"] = StubConnector("w", {"w0": wl}, inner=conns["b"])
            conns["v"] = StubConnector("v", {"v0": vl}, inner=conns["w"])
            self.level["v0"] = "w0"
            self.level["w0"] = "b0"
            self.targets = {"v": 1, "w": 1, "b": 1}
        elif topo == "two_deployments":
            self.caps["x0"], self.caps["y0"] = caps[0], caps[1]
            conns["x"] = StubConnector("x", {"x0": AvailableLocation(name="x0", deployment="x", hostname="hx", hardware=hw(caps[0]))})
            conns["y"] = StubConnector("y", {"y0": AvailableLocation(name="y0", deployment="y", hostname="hy", hardware=hw(caps[1]))})
            self.targets = {"x": 1, "y": 1}
        else:
            raise ValueError(topo)
        self.ctx.deployment_manager = StubDeploymentManager(conns)
        self.sched = DefaultScheduler(self.ctx)
        self.ctx.scheduler = self.sched
        self.deployments = {n: DeploymentConfig(name=n, type="stub", config={}) for n in conns}
        self.mk_binding = lambda names: BindingConfig(targets=[Target(deployment=self.deployments[n], locations=self.targets[n], workdir="/wd") for n in names])
        self.mount = mount
        # harness-side knowledge
        self.reqs = {}  # job -> (c, m, d)
        self.split = {}  # job -> size of a second storage entry on the same mount point (part of d)
        self.binding = {}  # job -> tuple of deployment names (declared target order)
        self.tasks = {}  # job -> pending/finished schedule task
        self.usage_log = {}  # location -> total MiB measured at releases
        self.measured = []

        async def _usages(context, location, hardware):
            out = {}
            for k in hardware.storage.keys():
                out[k] = Usage(self.usage)
            self.usage_log[location.name] = self.usage_log.get(location.name, 0) + self.usage * len(hardware.storage)
            return out

        self._orig_usages = sched_mod.remotepath.get_storage_usages
        sched_mod.remotepath.get_storage_usages = _usages
        self._sched_mod = sched_mod
        # exact arithmetic: the float zero defaults of Hardware() (cores=0.0, memory=0.0,
        # Storage('/', 0.0)) are replaced by the integer 0 so that the solver stays in
        # linear integer arithmetic (IEEE-754 behaviour is the subject of C14)
        self._orig_hw_init = Hardware.__init__
        orig = Hardware.__init__

        def _hw_init(self_, cores=0, memory=0, storage=None):
            orig(self_, cores, memory, storage)
            if not storage:
                for st in self_.storage.values():
                    st.size = 0

        Hardware.__init__ = _hw_init
        self._Hardware = Hardware

    def close(self):
        self._sched_mod.remotepath.get_storage_usages = self._orig_usages
        self._Hardware.__init__ = self._orig_hw_init

    # ---- observations
    def status(self, j):
        from streamflow.core.workflow import Status

        a = self.sched.job_allocations.get(j)
        if a is None:
            return NONE
        return {
            Status.FIREABLE: FIREABLE,
            Status.RUNNING: RUNNING,
            Status.COMPLETED: COMPLETED,
            Status.FAILED: FAILED,
            Status.CANCELLED: FAILED,
            Status.RECOVERY: RECOVERY,
            Status.ROLLBACK: ROLLBACK,
        }[a.status]

    def waiting(self, j):
        t = self.tasks.get(j)
        return t is not None and not t.done()

    def active_on(self, loc):
        """jobs holding a reservation on location loc (any stacked level)."""
        out = []
        for j, a in self.sched.job_allocations.items():
            if self.status(j) in (FIREABLE, RUNNING):
                for l in a.locations:
                    names = [l.name]
                    w = l.wraps if l.stacked else None
                    while w is not None:
                        names.append(w.name)
                        w = w.wraps if w.stacked else None
                    if loc in names:
                        out.append(j)
        return out

    # ---- operations
    def allowed(self, j, op):
        st = self.status(j)
        if self.waiting(j):
            return False
        if op == "S":
            return st in (NONE, ROLLBACK)
        if st == NONE:
            return False
        if op == "R":
            return st in (FIREABLE, RUNNING)  # RUNNING -> RUNNING: repeated notification
        if op in ("C", "F", "K"):
            return st in (RUNNING, COMPLETED, FAILED, RECOVERY) or (st == FIREABLE)
        if op == "V":
            return st in (RUNNING, FIREABLE, FAILED)
        if op == "B":
            # the failure manager rolls back jobs that are not executing, but the scheduler API also
            # accepts a direct ROLLBACK of a FIREABLE/RUNNING job (and a repeated ROLLBACK)
            return True
        return False

    def do(self, j, op):
        from streamflow.core.workflow import Job, Status

        if op == "S":
            c, m, d = self.reqs[j]
            d2 = self.split.get(j)
            job = Job(name=j, workflow_id=1, inputs={}, input_directory=None, output_directory=None, tmp_directory=None)
            req = Req(c, m, d, self.mount) if d2 is None else Req(c, m, d - d2, self.mount, disk2=d2)
            self.tasks[j] = self.loop.create_task(self.sched.schedule(job, self.mk_binding(self.binding[j]), req))
        else:
            st = {"R": Status.RUNNING, "C": Status.COMPLETED, "F": Status.FAILED, "K": Status.CANCELLED, "V": Status.RECOVERY, "B": Status.ROLLBACK}[op]
            self.loop.run_until_complete(self.sched.notify_status(j, st))
        self.loop.run_until_quiescent()
        for t in self.tasks.values():
            if t.done() and not t.cancelled():
                t.result()  # surface exceptions of schedule()

    # ---- oracles
    def ok_capacity(self):
        """C10: reserved <= capacity on every location (every stacked level) / jobs <= slots."""
        for loc, cap in self.caps.items():
            act = self.active_on(loc)
            if cap is None:
                if len(act) > self.slots[loc]:
                    return False
                continue
            c = m = d = 0
            for j in act:
                c += self.reqs[j][0]
                m += self.reqs[j][1]
                d += self.reqs[j][2]
            if c > cap[0] or m > cap[1] or d > cap[2]:
                return False
        return True

    def ok_accounting(self, final=False):
        """C11: the scheduler's own ledger never goes negative and (final) returns to zero
        cores/memory; storage keeps exactly the measured usages."""
        for loc, hw in self.sched.hardware_locations.items():
            if hw.cores < 0 or hw.memory < 0:
                return False
            for s in hw.storage.values():
                if s.size < 0:
                    return False
            if final:
                if hw.cores != 0 or hw.memory != 0:
                    return False
                tot = 0
                for s in hw.storage.values():
                    tot += s.size
                if tot != self.usage_log.get(loc, 0):
                    return False
        return True

    def ok_no_starvation(self):
        """C12: no request stays waiting while a candidate target has enough free capacity."""
        for j in self.reqs:
            if not self.waiting(j):
                continue
            for dep in self.binding[j]:
                need = self.targets[dep]
                conn = self.ctx.deployment_manager.get_connector(dep)
                fits = 0
                for name in conn._locations:
                    ok = True
                    lvl = name
                    while lvl is not None:
                        cap = self.caps[lvl]
                        act = self.active_on(lvl)
                        if cap is None:
                            if not len(act) < self.slots[lvl]:
                                ok = False
                        else:
                            c = m = d = 0
                            for k in act:
                                c += self.reqs[k][0]
                                m += self.reqs[k][1]
                                d += self.reqs[k][2]
                            # storage already consumed by measured usages stays reserved
                            d += self.usage_log.get(lvl, 0)
                            r = self.reqs[j]
                            if c + r[0] > cap[0] or m + r[1] > cap[1] or d + r[2] > cap[2]:
                                ok = False
                        lvl = self.level.get(lvl)
                    if ok:
                        fits += 1
                if fits >= need:
                    return False
        return True


def run_history(topo, caps, reqs, bindings, prefix_status, ops, oracle, slots=None, usage=0, drain=True, split=None):
    """reqs: list of (c,m,d) per job; bindings: per job tuple of deployments;
    prefix_status: per job designated status (concrete); ops: list of symbolic op codes
    (j * len(OPS) + k); oracle in {"capacity", "accounting", "starvation"}."""
    jobs = ["/s/0." + str(i) for i in range(len(reqs))]
    w = World(topo, caps, slots=slots, usage=usage)
    try:
        with w.loop:
            for j, r, b in zip(jobs, reqs, bindings):
                w.reqs[j] = r
                w.binding[j] = b
            if split is not None:
                # split[i]: part of job i's disk requirement that is declared as a second storage entry
                for j, r, d2 in zip(jobs, reqs, split):
                    w.reqs[j] = (r[0], r[1], r[2] + d2)
                    w.split[j] = d2

            def check():
                if oracle == "capacity":
                    return w.ok_capacity()
                if oracle == "accounting":
                    return w.ok_capacity() and w.ok_accounting()
                return w.ok_no_starvation()

            # canonical prefixes
            for j, st in zip(jobs, prefix_status):
                for op in CANON[st]:
                    if w.allowed(j, op):
                        w.do(j, op)
                        if not check():
                            return False
            # symbolic suffix
            nops = len(OPS)
            for code in ops:
                hit = None
                for ji in range(len(jobs)):
                    for k in range(nops):
                        if code == ji * nops + k:
                            hit = (jobs[ji], OPS[k])
                if hit is None:
                    continue
                if not w.allowed(hit[0], hit[1]):
                    continue
                w.do(hit[0], hit[1])
                if not check():
                    return False
            if drain:
                # drive every allocated job to a terminal status, releasing in job order
                for _ in range(2):
                    for j in jobs:
                        st = w.status(j)
                        if w.waiting(j):
                            continue
                        if st == FIREABLE:
                            w.do(j, "R")
                            st = RUNNING
                        if st == RUNNING:
                            w.do(j, "C")
                        if not check():
                            return False
                if oracle == "accounting" and not w.ok_accounting(final=not any(w.waiting(j) for j in jobs)):
                    return False
                if oracle == "starvation":
                    # once everything else is terminal, every request that fits the total capacity was granted
                    if not w.ok_no_starvation():
                        return False
            return True
    finally:
        w.close()
