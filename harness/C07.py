"""C07 — reuses the executor-level graph generator of C04 with the 'provenance' oracle (see harness/exec_lib.py)."""

from __future__ import annotations

from harness import C04 as _base

LEVEL = "other"
PROP = "C07"
ORACLE = "provenance"
T = _base.T


def specs(tier: str):
    return _base.gen(PROP, ORACLE, tier)


ASSUMPTIONS = list(_base.ASSUMPTIONS) + [
    "StubDatabase hands out ids in persist order, so 'dependee persisted before depender' is 'id smaller'; the SQL layer (INSERT OR IGNORE, get_dependees) is behind sqlite3 and outside the claim; recovery runs are outside",
    "per-step-type rule for 'the tokens it was computed from': transformer / conditional / combinator / schedule / execute = the persisted input tokens carrying the output's tag (incl. the job token); scatter = the list token; gather = the size token + the elements of that key",
]
EXPLANATION = (
    "Same graphs and schedules as C04 without faults; the StubDatabase records every add_token / add_provenance. Oracle after each run: every "
    "non-termination token on any step output port has a persistent id; its recorded dependees are exactly the persisted tokens the emitting step "
    "consumed for it; no token has provenance recorded twice; every dependee id is smaller than its depender id (acyclic, dependee-first). The step-level "
    "checks C01/C02/C06 assert the same rule for gather, combinator and loop-output tokens under symbolic arrival orders."
)
