"""C26 — deployments follow a safe lifecycle under concurrent requests.

Real code executed symbolically: DefaultDeploymentManager.deploy/_deploy/_inner_deploy/
undeploy/undeploy_all/close/get_connector, FutureConnector.deploy/run/
get_available_locations/undeploy/_safe_deploy_event_wait, ConnectorWrapper.

Environment: two instrumented connector classes registered in `connector_classes`
("c26-plain": FakeConnector, "c26-wrap": FakeWrapper(ConnectorWrapper)). Their
deploy/undeploy append to an event log and contain one explicit yield point
(`await asyncio.sleep(0)`), so that every other task can run in between. Requests
are tasks on a DetLoop whose first K scheduling choices are solver variables.
"""

from __future__ import annotations

import asyncio
import sys

from crosshair.tracers import NoTracing, ResumedTracing
from lib.detloop import Deadlock, DetLoop, Prune
from lib.runner import Spec, mk_source
from lib.stubs import StubContext
from streamflow.core.deployment import Connector, DeploymentConfig, WrapsConfig
from streamflow.deployment.connector import connector_classes
from streamflow.deployment.future import FutureConnector
from streamflow.deployment.manager import DefaultDeploymentManager
from streamflow.deployment.wrapper import ConnectorWrapper

LEVEL = "other"
EXPLANATION = (
    "The real DefaultDeploymentManager, FutureConnector and ConnectorWrapper run on a deterministic event loop against "
    "instrumented fake connector classes (registered in connector_classes) whose deploy/undeploy log their start and end "
    "around one explicit yield point. Every obligation fixes a request skeleton (phases of 1-4 concurrent deploy / "
    "deploy-then-use / first-use / undeploy / undeploy_all / close requests over at most 3 deployments of the topology "
    "A, B wraps A, C wraps B, E wraps A, D unrelated); the solver owns the first K scheduling choices (which ready callback "
    "runs next), which deployment's deploy() raises (or none) and the lazy/eager flags. The oracle replays the event log "
    "through a per-deployment state machine (down -> deploying -> live -> undeploying -> down) and checks the five clauses "
    "of the statement; a request that cannot make progress (Deadlock of the loop) or a task left pending is a violation."
)
ASSUMPTIONS = [
    "fake connectors: FakeConnector (plain) and FakeWrapper (subclass of the real ConnectorWrapper); deploy()/undeploy() log start/end around ONE yield point (asyncio.sleep(0)); "
    "a FakeWrapper's deploy() uses its inner connector once (inner.run) before completing, as container/queue-manager wrappers do; run/get_available_locations log a use and do not yield",
    "StubContext with config = {'path': '/cfg/streamflow.yml', 'deployments': {...all deployments of the topology...}} (what _inner_deploy reads to deploy a wrapped deployment implicitly); DetLoop replaces the selector loop; logging disabled",
    "topology names are concrete: A plain, B wraps A, C wraps B, E wraps A, D plain and unrelated; at most 3 of them per skeleton; every wrapper names its wrapped deployment explicitly (the implicit '__LOCAL__' wrapping with the real LocalConnector is not exercised); external=False",
    "the first K scheduling choices are symbolic (K=5 quick, K=8 thorough; K=6 for the two thorough skeletons with two concurrent undeploy_all/close requests), each picks among the first 4 ready callbacks; afterwards the loop is FIFO",
    "the lazy flags and the failing index are realised at the start of a path; afterwards the only symbolic values are the scheduling choices, which only DetLoop._pick looks at: the code between two choice points "
    "computes on concrete values and runs with CrossHair's tracer switched off (NoTracing), the tracer is switched back on inside _pick (ResumedTracing); path counts are identical to the fully traced run, which was measured once",
    "at most one deployment fails, and it fails on every deploy attempt; undeploy never fails",
    "OUT of the claim (the statement does not fix the outcome): a deploy / first use racing an undeploy or undeploy_all that concerns the same deployment or a deployment of the same wraps chain; "
    "undeploy requests are only issued in a phase that starts after all deploy requests of related deployments have returned (an undeploy of an UNRELATED deployment may race deploys)",
    "clause 'deployed at most once while live': a connector deploy() may start only while no other connector of the same deployment name is deploying, live or undeploying (a new deploy after a FAILED deploy would be accepted)",
    "clause 'deploy returns only after deployed': when deploy(X) returns normally, eager X: X's connector deploy() has completed and X is live; lazy X: get_connector(X) is a FutureConnector (or X is live), "
    "and every use (run / get_available_locations) that returns normally finds X live, with the at-most-once clause covering concurrent first uses",
    "clause 'wrapped never undeployed while wrapper live': when the undeploy() of X's connector starts, every deployment that wraps X is down (never deployed, failed, or its connector undeploy() has COMPLETED)",
    "clause 'undeploy-all exactly once': every deployment whose connector is live when the phase containing undeploy_all()/close() starts has exactly one connector undeploy() during the phase and is down afterwards; no other connector is undeployed",
    "clause 'failure => fail, not hang': every request task terminates (loop Deadlock / step budget = violation), no task is left pending at the end; a deploy(X) of an eager failing X raises, a use of a failing X raises; "
    "requests on deployments that merely wrap the failing one only have to terminate; when nothing fails every deploy/use request returns normally",
    "an exception raised by an undeploy request itself is not judged (only its effects on the log are)",
]

T = (
    "streamflow.deployment.manager.DefaultDeploymentManager.deploy",
    "streamflow.deployment.manager.DefaultDeploymentManager._deploy",
    "streamflow.deployment.manager.DefaultDeploymentManager._inner_deploy",
    "streamflow.deployment.manager.DefaultDeploymentManager.undeploy",
    "streamflow.deployment.manager.DefaultDeploymentManager.undeploy_all",
    "streamflow.deployment.manager.DefaultDeploymentManager.close",
    "streamflow.deployment.manager.DefaultDeploymentManager.get_connector",
    "streamflow.deployment.future.FutureConnector.deploy",
    "streamflow.deployment.future.FutureConnector.run",
    "streamflow.deployment.future.FutureConnector.get_available_locations",
    "streamflow.deployment.future.FutureConnector.undeploy",
    "streamflow.deployment.future.FutureConnector._safe_deploy_event_wait",
    "streamflow.deployment.wrapper.ConnectorWrapper.__init__",
)

# ---------------------------------------------------------------- environment

WRAPS = {"B": "A", "C": "B", "E": "A"}  # A and D are plain
NAMES = ("A", "B", "C", "D", "E")


class FakeFailure(Exception):
    pass


class Env:
    def __init__(self):
        self.log: list = []
        self.fail: set = set()


_ENV = [Env()]
_EXPLAIN = "xh_worker" not in (sys.argv[0] if sys.argv else "")  # not under the CrossHair worker


def _log(*ev):
    _ENV[0].log.append(ev)


class _Fake:
    """Instrumented deploy/undeploy shared by the plain and the wrapper connector."""

    async def _pre_deploy(self):
        return None

    async def deploy(self, external: bool) -> None:
        n = self.deployment_name
        _log("ds", n)
        try:
            await asyncio.sleep(0)
            if n in _ENV[0].fail:
                raise FakeFailure(n)
            await self._pre_deploy()
        except Exception:
            _log("df", n)
            raise
        _log("de", n)

    async def undeploy(self, external: bool) -> None:
        n = self.deployment_name
        _log("us", n)
        await asyncio.sleep(0)
        _log("ue", n)

    @classmethod
    def get_schema(cls) -> str:
        return "{}"


class FakeConnector(_Fake, Connector):
    def __init__(self, deployment_name, config_dir, transferBufferSize=0):
        super().__init__(deployment_name, config_dir, transferBufferSize)

    async def copy_local_to_remote(self, src, dst, locations, read_only=False):
        raise NotImplementedError

    async def copy_remote_to_local(self, src, dst, location, read_only=False):
        raise NotImplementedError

    async def copy_remote_to_remote(self, src, dst, locations, source_location, source_connector=None, read_only=False):
        raise NotImplementedError

    async def get_shell(self, command, location):
        raise NotImplementedError

    async def get_stream_reader(self, command, location):
        raise NotImplementedError

    async def get_stream_writer(self, command, location):
        raise NotImplementedError

    async def get_available_locations(self, service=None):
        _log("use", self.deployment_name)
        return {}

    async def run(self, location, command, environment=None, workdir=None, stdin=None, stdout=None, stderr=None, capture_output=False, timeout=None, job_name=None):
        _log("use", self.deployment_name)
        return ("", 0)


class FakeWrapper(_Fake, ConnectorWrapper):
    def __init__(self, deployment_name, config_dir, connector, service=None, transferBufferSize=0):
        super().__init__(deployment_name, config_dir, connector, service, transferBufferSize)

    async def _pre_deploy(self):
        # a wrapper's deploy() works through the wrapped connector (docker over ssh, ...)
        await self.connector.run(None, ["true"])

    async def get_available_locations(self, service=None):
        _log("use", self.deployment_name)
        return await ConnectorWrapper.get_available_locations(self, service=service)

    async def run(self, location, command, environment=None, workdir=None, stdin=None, stdout=None, stderr=None, capture_output=False, timeout=None, job_name=None):
        _log("use", self.deployment_name)
        return await ConnectorWrapper.run(self, location=location, command=command)


connector_classes["c26-plain"] = FakeConnector
connector_classes["c26-wrap"] = FakeWrapper


def _raw_config(name, lazy):
    d = {"type": "c26-wrap" if name in WRAPS else "c26-plain", "config": {}, "external": False, "lazy": lazy, "scheduling_policy": None}
    if name in WRAPS:
        d["wraps"] = WRAPS[name]
    return d


def _config(name, lazy):
    return DeploymentConfig(
        name=name,
        type="c26-wrap" if name in WRAPS else "c26-plain",
        config={},
        external=False,
        lazy=lazy,
        wraps=WrapsConfig(deployment=WRAPS[name]) if name in WRAPS else None,
    )


# ---------------------------------------------------------------- requests
#
# request = (kind, name)
#   "D"  deploy(name)
#   "DR" deploy(name) then get_connector(name).run(...)
#   "DL" deploy(name) then get_connector(name).get_available_locations()
#   "R"  get_connector(name).run(...)                 (name deployed in an earlier phase)
#   "L"  get_connector(name).get_available_locations()
#   "U"  undeploy(name)
#   "UA" undeploy_all()        "CL" close()


async def _request(dm, rid, kind, name, lazy, res):
    try:
        if kind in ("D", "DR", "DL"):
            await dm.deploy(_config(name, lazy[name]))
            conn = dm.get_connector(name)
            _log("ret", name, isinstance(conn, FutureConnector))
        if kind in ("DR", "R"):
            await dm.get_connector(name).run(None, ["true"])
            _log("used", name)
        elif kind in ("DL", "L"):
            await dm.get_connector(name).get_available_locations()
            _log("used", name)
        elif kind == "U":
            await dm.undeploy(name)
        elif kind == "UA":
            await dm.undeploy_all()
        elif kind == "CL":
            await dm.close()
        res[rid] = "ok"
    except Exception as e:
        res[rid] = "exc:" + type(e).__name__


def _universe(skel):
    """deployments a skeleton can touch: the requested ones and everything they wrap."""
    out = []
    for ph in skel:
        for k, n in ph:
            if k in ("UA", "CL"):
                continue
            while n is not None:
                if n not in out:
                    out.append(n)
                n = WRAPS.get(n)
    return sorted(out)


def _scan(log, start, state):
    """Replay log[start:] through the per-deployment state machine. Returns None or a reason."""
    und = {}
    for ev in log[start:]:
        k, n = ev[0], ev[1]
        st = state.get(n, "down")
        if k == "ds":
            if st != "down":
                return "deploy of " + n + " starts while " + st
            state[n] = "deploying"
        elif k == "de":
            state[n] = "live"
        elif k == "df":
            state[n] = "down"
        elif k == "us":
            if st != "live":
                return "undeploy of " + n + " starts while " + st
            for w, x in WRAPS.items():
                if x == n and state.get(w, "down") != "down":
                    return "undeploy of " + n + " starts while its wrapper " + w + " is " + state[w]
            state[n] = "undeploying"
            und[n] = und.get(n, 0) + 1
        elif k == "ue":
            state[n] = "down"
        elif k == "ret":
            if not (st == "live" or (ev[2] and st in ("down", "deploying"))):
                return "deploy(" + n + ") returned while " + st
        elif k == "used":
            if st != "live":
                return "use of " + n + " returned while " + st
    return und


class _Loop(DetLoop):
    """DetLoop whose choice points are the only traced region (see prop_lifecycle)."""

    def _pick(self):
        if len(self._ready) > 1 and self._choice_pos < len(self._choices):
            with ResumedTracing():
                return DetLoop._pick(self)
        return self._ready.pop(0)


def prop_lifecycle(skel, lazy_flags, fail, choices, why=None) -> bool:
    """skel: tuple of phases, each a tuple of (kind, name) requests run concurrently.
    lazy_flags: dict name -> bool (symbolic); fail: 0 = nothing fails, i>0 = the i-th
    deployment of the skeleton's universe (sorted) fails; choices: symbolic ints.

    The flags and the failing index are realised first (one path per value); from then on
    the only symbolic values are the scheduling choices, which are looked at in
    DetLoop._pick only. Everything between two choice points therefore computes on
    concrete values and runs with CrossHair's tracer switched off (same results, ~4x
    faster); the tracer is switched back on inside _pick."""
    names = _universe(skel)
    lazy = {}
    for n in names:
        lazy[n] = True if lazy_flags[n] else False
    failing = None
    for i in range(len(names)):
        if fail == i + 1:
            failing = names[i]
    with NoTracing():
        return _run(skel, names, lazy, failing, choices, why)


def _run(skel, names, lazy, failing, choices, why):
    env = Env()
    _ENV[0] = env
    if failing is not None:
        env.fail.add(failing)

    def bad(msg):
        if why is not None:
            why.append(msg)
            why.append(list(env.log))
        elif _EXPLAIN:  # native replay: say which clause failed
            print("C26 violated [" + classify(msg) + "]: " + msg, file=sys.stderr)
            print("  lazy=" + repr(lazy) + " failing=" + repr(failing) + " schedule=" + repr(loop.choice_log), file=sys.stderr)
            print("  event log (ds/de/df = connector deploy start/end/failed, us/ue = undeploy start/end, ret = deploy() returned, use/used): " + repr(env.log), file=sys.stderr)
        return False

    ctx = StubContext()
    ctx.config = {"path": "/cfg/streamflow.yml", "deployments": {n: _raw_config(n, lazy[n]) for n in names}}
    dm = DefaultDeploymentManager(ctx)
    ctx.deployment_manager = dm
    loop = _Loop(choices=choices, max_steps=5000)
    state = {}
    pos = 0
    try:
        with loop:
            rid = 0
            for ph in skel:
                live_before = [n for n in names if state.get(n, "down") == "live"]
                res = {}
                tasks = []
                for kind, name in ph:
                    tasks.append(loop.create_task(_request(dm, rid, kind, name, lazy, res)))
                    rid += 1
                for t in tasks:
                    try:
                        loop.run_until_complete(t)
                    except Deadlock:
                        return bad("a request hangs: " + repr(ph) + " results " + repr(res))
                loop.run_until_quiescent()
                if loop.pending_tasks():
                    return bad("tasks left pending after phase " + repr(ph))
                und = _scan(env.log, pos, state)
                pos = len(env.log)
                if isinstance(und, str):
                    return bad(und)
                # undeploy_all / close: every connector that was live is undeployed exactly once
                if any(k in ("UA", "CL") for k, _ in ph):
                    for n in names:
                        want = 1 if n in live_before else 0
                        if und.get(n, 0) != want or state.get(n, "down") == "live":
                            return bad("undeploy_all: " + n + " undeployed " + str(und.get(n, 0)) + " times, expected " + str(want) + ", now " + state.get(n, "down"))
                # outcomes
                r0 = rid - len(ph)
                for j in range(len(ph)):
                    kind, name = ph[j]
                    out = res.get(r0 + j)
                    if out is None:
                        return bad("request " + repr(ph[j]) + " did not terminate")
                    if kind in ("U", "UA", "CL"):
                        continue
                    if failing is None:
                        if out != "ok":
                            return bad("request " + repr(ph[j]) + " raised " + out + " although nothing failed")
                    elif name == failing:
                        uses = kind in ("DR", "DL", "R", "L")
                        if (uses or not lazy[name]) and out == "ok":
                            return bad("request " + repr(ph[j]) + " returned normally although " + name + " fails")
            return True
    except Prune:
        return True


# ---------------------------------------------------------------- obligations

IMPORTS = "from harness.C26 import *"
R = 4  # each symbolic choice picks among the first R ready callbacks


def classify(msg: str) -> str:
    """Clause label of a violation message (diagnosis / known-finding key)."""
    if msg.startswith("a request hangs") or msg.startswith("tasks left pending") or " did not terminate" in msg:
        return "request-hangs"
    if msg.startswith("undeploy of") and "its wrapper" in msg:
        return "wrapped-undeployed-before-wrapper"
    if msg.startswith("undeploy_all:"):
        return "undeploy_all-not-exactly-once"
    if msg.startswith("undeploy of"):
        return "undeploy-of-non-live-connector"
    if msg.startswith("deploy of"):
        return "deployed-twice-while-live"
    if msg.startswith("deploy("):
        return "deploy-returned-before-deployed"
    if msg.startswith("use of"):
        return "use-returned-but-not-live"
    if "although nothing failed" in msg:
        return "request-failed-without-failure"
    if "returned normally although" in msg:
        return "failure-not-reported"
    return "other"


def _make_key(skel, pnames, names, lazy_mode):
    def key(call: str):
        import ast

        try:
            node = ast.parse(call, mode="eval").body
            env = {}
            for name, a in zip(pnames, node.args):
                env[name] = ast.literal_eval(a)
            for kw in node.keywords:
                env[kw.arg] = ast.literal_eval(kw.value)
            if lazy_mode == "each":
                lz = {n: env["lz" + n] for n in names}
            elif lazy_mode == "same":
                lz = {n: env["lz"] for n in names}
            else:
                lz = {n: lazy_mode == "lazy" for n in names}
            why = []
            ok = prop_lifecycle(skel, lz, env["fail"], [env[c] for c in pnames if c[0] == "c"], why)
            if ok:
                return "not-reproduced"
            return classify(why[0])
        except Exception as e:  # diagnosis must never break the run
            return "explain-failed:" + type(e).__name__

    return key


def _rq(k, n):
    return k + ("(" + n + ")" if n else "()")


def _sk_name(skel):
    short = {"UA": "Uall", "CL": "Close"}
    return "__".join("_".join(short.get(k, k) + (n or "") for k, n in ph) for ph in skel)


def _spec(skel, K, lazy_mode="each", cond=600, group=None):
    """lazy_mode: 'each' (one symbolic bool per deployment), 'same' (one shared symbolic bool),
    'eager' / 'lazy' (concrete)."""
    names = _universe(skel)
    params, pre = [], []
    if lazy_mode == "each":
        params += [f"lz{n}: bool" for n in names]
        lz = "{" + ", ".join(f"{n!r}: lz{n}" for n in names) + "}"
        lzw = "one symbolic lazy/eager flag per deployment"
    elif lazy_mode == "same":
        params.append("lz: bool")
        lz = "{" + ", ".join(f"{n!r}: lz" for n in names) + "}"
        lzw = "all deployments lazy or all eager (one symbolic flag)"
    else:
        v = lazy_mode == "lazy"
        lz = "{" + ", ".join(f"{n!r}: {v}" for n in names) + "}"
        lzw = "all deployments " + lazy_mode
    params.append("fail: int")
    pre.append(f"0 <= fail <= {len(names)}")
    cs = [f"c{i}" for i in range(K)]
    params += [f"{c}: int" for c in cs]
    pre += [f"0 <= {c} < {R}" for c in cs]
    call = f"prop_lifecycle({skel!r}, {lz}, fail, [{', '.join(cs)}])"
    phases = "; then ".join("{" + " || ".join(_rq(k, n) for k, n in ph) + "}" for ph in skel)
    return Spec(
        name=f"{_sk_name(skel)}_{lazy_mode}_K{K}",
        group=group or "lifecycle clauses on request skeleton",
        source=mk_source(IMPORTS, ", ".join(params), pre, call),
        cond=cond,
        path=60,
        bound=f"phases {phases} over deployments {names} (B wraps A, C wraps B, E wraps A, D unrelated; D=deploy, DR/DL=deploy then run/get_available_locations, R/L=use, U=undeploy, UA=undeploy_all, CL=close; "
        f"requests of a phase run concurrently, a phase starts when the previous one has finished); "
        f"{lzw}; failing deployment symbolic (none or one of {names}); first {K} scheduling choices symbolic (each among the first {R} ready callbacks), FIFO afterwards",
        symbolic=f"{K} scheduling choices, failing deployment" + (", lazy flags" if lazy_mode in ("each", "same") else ""),
        targets=T,
        finding_key=_make_key(skel, [q.split(":")[0].strip() for q in params], names, lazy_mode),
    )


def skeletons(tier):
    quick = tier == "quick"
    G1 = "concurrent deploys: one connector deploy per live name, return only after deployed, a failure reaches every waiter"
    G2 = "lazy deployments: concurrent first uses deploy exactly once"
    G3 = "undeploy order: a wrapped deployment outlives its wrappers"
    G4 = "undeploy_all / close undeploy every live connector exactly once"

    def D(n):
        return ("D", n)

    def DR(n):
        return ("DR", n)

    def DL(n):
        return ("DL", n)

    def U(n):
        return ("U", n)

    def Rn(n):
        return ("R", n)

    def L(n):
        return ("L", n)

    UA, CL = ("UA", None), ("CL", None)
    out = [
        # ---- G1 concurrent deploys (plain, chains of 2 and 3, two wrappers of one deployment, unrelated undeploy racing)
        (((D("A"), D("A")),), "each", G1),
        (((D("A"), D("A"), D("A")),), "each", G1),
        (((D("A"), D("B")),), "each", G1),
        (((DR("B"), DR("B")),), "each", G1),
        (((D("C"), D("B"), D("A")),), "same", G1),
        (((DR("C"), DR("C")),), "same", G1),
        (((D("B"), D("E")),), "same", G1),
        (((DR("D"),), (DR("B"), U("D"))), "same", G1),
        # ---- G2 lazy first uses
        (((D("A"),), (Rn("A"), L("A"))), "each", G2),
        (((D("B"),), (Rn("B"), L("B"))), "each", G2),
        (((D("B"),), (D("A"),), (Rn("B"), Rn("A"))), "each", G2),
        (((DR("A"), DL("A")),), "each", G2),
        (((DR("B"), DR("A")),), "each", G2),
        (((D("C"),), (Rn("C"), L("C"))), "same", G2),
        # ---- G3 undeploy order
        (((DR("A"),), (DR("B"),), (U("A"),), (U("B"),)), "each", G3),
        (((DR("A"),), (DR("B"),), (U("A"), U("B"))), "each", G3),
        (((DR("C"),), (U("B"),)), "same", G3),
        (((DR("C"),), (U("A"), U("B"), U("C"))), "same", G3),
        (((DR("B"),), (DR("E"),), (U("B"), U("E"))), "same", G3),
        # ---- G4 undeploy_all / close
        (((DR("A"),), (DR("B"),), (UA,)), "each", G4),
        (((DR("A"), DR("B")), (UA,)), "each", G4),
        (((DR("C"),), (UA,)), "same", G4),
        (((DR("A"),), (DR("B"),), (DR("C"),), (CL,)), "same", G4),
        (((DR("B"),), (DR("E"),), (UA,)), "same", G4),
        (((DR("A"),), (DR("D"),), (CL,)), "each", G4),
        (((DR("A"),), (U("A"),), (DR("A"),), (UA,)), "each", G4),
    ]
    if not quick:
        out += [
            (((D("A"), D("A"), D("B"), D("B")),), "each", G1),
            (((D("C"), D("B"), D("A"), D("C")),), "same", G1),
            (((D("C"), D("B"), D("A")),), "each", G1),
            (((DR("C"), DL("B"), DR("A")),), "same", G1),
            (((D("B"), D("E"), D("A")),), "same", G1),
            (((DR("D"),), (DR("C"), U("D"))), "same", G1),
            (((D("C"),), (Rn("C"), L("C"), Rn("C"))), "same", G2),
            (((D("C"), D("B")), (Rn("C"), L("B"))), "each", G2),
            (((D("B"), D("E")), (Rn("B"), L("E"))), "each", G2),
            (((DR("A"),), (DR("B"),), (DR("C"),), (U("C"), U("B"), U("A"))), "same", G3),
            (((DR("A"),), (DR("B"),), (DR("C"),), (U("A"),), (U("B"),), (U("C"),)), "same", G3),
            (((DR("C"),), (U("C"),)), "each", G3),
            (((DR("B"),), (DR("E"),), (U("B"),), (UA,)), "same", G4),
            (((DR("A"),), (DR("B"),), (UA, UA)), "each", G4, 6),
            (((DR("A"),), (DR("B"),), (UA, U("A"))), "each", G4),
            (((DR("A"),), (DR("B"),), (UA, U("B"))), "each", G4),
            (((DR("C"),), (UA, CL)), "same", G4, 6),
            (((DR("C"), DR("B")), (UA,)), "same", G4),
            (((DR("B"), DR("E")), (CL,)), "same", G4),
            (((DR("C"),), (UA,)), "each", G4),
            (((DR("B"),), (U("B"),), (DR("B"), DR("A")), (UA,)), "each", G4),
        ]
    return out


def specs(tier: str):
    quick = tier == "quick"
    K = 5 if quick else 8
    out = []
    for sk in skeletons(tier):
        skel, mode, group = sk[0], sk[1], sk[2]
        k = min(K, sk[3]) if len(sk) > 3 else K  # two concurrent undeploy_all: up to 8 tasks, K capped
        out.append(_spec(skel, k, lazy_mode=mode, cond=600 if quick else 3000, group=group))
    return out
