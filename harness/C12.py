"""C12 — reuses the scheduler history generator of C10 with the 'starvation' oracle (see harness/sched_lib.py)."""

from __future__ import annotations

from harness import C10 as _base

LEVEL = "other"
PROP = "C12"
ORACLE = "starvation"
ASSUMPTIONS = list(_base.ASSUMPTIONS)
T = _base.T


def specs(tier: str):
    return _base.gen(PROP, ORACLE, tier)


EXPLANATION = (
    "Same histories as C10. Oracle, evaluated by the harness from quantities it knows independently of the scheduler's ledger: at every "
    "quiescent point no schedule() request is still pending while some declared target has enough locations whose free capacity (capacity "
    "minus the requirements of FIREABLE/RUNNING jobs minus measured storage residues; or free slots) covers the request at every stacked level; "
    "after every other job is terminal every request that fits the total capacity has been granted. retry_interval=None, so a missing "
    "notify_all cannot be masked by the polling timer."
)
